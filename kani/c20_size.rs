//@file src/append/rolling_file/policy/compound/trigger/size.rs
//@harness c20_size_u64 strength=complete bound="every u64 given as an integer scalar (full domain), loop-free" timeout=600 body=body_u64
//@harness c20_size_i64 strength=complete bound="every i64 given as an integer scalar (full domain), loop-free" timeout=600 body=body_i64
//@harness c20_size_ascii5 unwind=8 strength=bounded bound="every ASCII string of <= 5 bytes" timeout=1500 body=body_ascii5
//@harness c20_size_tb8 unwind=12 strength=bounded bound="all 8-digit numbers followed by ' tB' (the overflow threshold of tb, 2^24, has 8 digits)" timeout=3000 body=body_tb8
//@harness c20_size_gb11 unwind=15 strength=bounded bound="all 11-digit numbers followed by 'Gb' (threshold of gb, 2^34, has 11 digits)" timeout=3000 body=body_gb11 tier=thorough
//@harness c20_size_mb14 unwind=18 strength=bounded bound="all 14-digit numbers followed by ' mib' (threshold of mb, 2^44, has 14 digits)" timeout=3000 body=body_mb14 tier=thorough
//@harness c20_size_kb17 unwind=21 strength=bounded bound="all 17-digit numbers followed by 'KB' (threshold of kb, 2^54, has 17 digits)" timeout=3000 body=body_kb17 tier=thorough
//@harness c20_size_b20 unwind=24 strength=bounded bound="all 20-digit numbers followed by ' b' (2^64 has 20 digits)" timeout=3000 body=body_b20 tier=thorough
// deserialize_limit reached through serde's own value deserializers (the visitor is a local type): integer scalars
// arrive via visit_u64 / visit_i64, string scalars via visit_str. The error type ignores messages (formatting them
// is what CBMC cannot finish).
#[cfg(any(kani, verif_replay))]
#[allow(dead_code, unused)]
mod __verif_c20_size {
    use super::*;
    use crate::__verif_rt::*;
    use crate::{__verif_ob, __verif_cover};
    use serde::de::value::{StrDeserializer, U64Deserializer, I64Deserializer};
    use serde::de::IntoDeserializer;
    pub(crate) struct E;
    impl std::fmt::Debug for E { fn fmt(&self, _f: &mut std::fmt::Formatter) -> std::fmt::Result { Ok(()) } }
    impl std::fmt::Display for E { fn fmt(&self, _f: &mut std::fmt::Formatter) -> std::fmt::Result { Ok(()) } }
    impl std::error::Error for E {}
    impl serde::de::Error for E { fn custom<T: std::fmt::Display>(_m: T) -> Self { E } }

    pub(crate) fn body_u64(src: &mut Src) {
        let v = src.u64();
        let d: U64Deserializer<E> = v.into_deserializer();
        let r = deserialize_limit(d);
        __verif_ob!("visit_u64#post a bare non-negative integer means bytes", matches!(r, Ok(x) if x == v));
    }
    pub(crate) fn body_i64(src: &mut Src) {
        let v = src.i64();
        let d: I64Deserializer<E> = v.into_deserializer();
        let r = deserialize_limit(d);
        __verif_cover!("negative number", v < 0);
        if v < 0 { __verif_ob!("visit_i64#post negative numbers are rejected", r.is_err()); }
        else { __verif_ob!("visit_i64#post a bare non-negative integer means bytes", matches!(r, Ok(x) if x == v as u64)); }
    }

    fn is_ws(b: u8) -> bool { b == b' ' || (b >= 9 && b <= 13) }
    fn lower(b: u8) -> u8 { if b >= b'A' && b <= b'Z' { b + 32 } else { b } }
    // oracle from the statement: <number><ws*><unit><ws*> or <number>; unit in {b, kb, kib, mb, mib, gb, gib, tb, tib}, any case
    fn expect(s: &[u8]) -> Option<u64> {
        let n = s.len();
        let mut i = 0; let mut num: u128 = 0;
        while i < n && s[i] >= b'0' && s[i] <= b'9' { num = num * 10 + (s[i] - b'0') as u128; i += 1; }
        if i == 0 { return None; }
        if num > u64::MAX as u128 { return None; }
        if i == n { return Some(num as u64); }
        let mut a = i; while a < n && is_ws(s[a]) { a += 1; }
        let mut z = n; while z > a && is_ws(s[z - 1]) { z -= 1; }
        let ul = z - a;
        if ul == 0 || ul > 3 { return None; }
        let u0 = lower(s[a]);
        let shift: u32 = match u0 { b'b' => 0, b'k' => 10, b'm' => 20, b'g' => 30, b't' => 40, _ => return None };
        if u0 == b'b' { if ul != 1 { return None; } }
        else if ul == 2 { if lower(s[a + 1]) != b'b' { return None; } }
        else if ul == 3 { if lower(s[a + 1]) != b'i' || lower(s[a + 2]) != b'b' { return None; } }
        else { return None; }
        let v = num << shift;
        if v > u64::MAX as u128 { None } else { Some(v as u64) }
    }
    fn check(bytes: &[u8], r: Result<u64, E>) {
        match (expect(bytes), &r) {
            (Some(v), Ok(x)) => { __verif_ob!("visit_str#post parses to exactly number x unit", *x == v); }
            (Some(_), Err(_)) => { __verif_ob!("visit_str#post a well-formed, representable literal is accepted", false); }
            (None, Ok(_)) => { __verif_ob!("visit_str#post junk, unknown units, fractions, signs and overflowing values are rejected", false); }
            (None, Err(_)) => {}
        }
    }
    pub(crate) fn body_ascii5(src: &mut Src) {
        let n = src.u8() as usize; assume(n <= 5);
        let bytes = [src.u8(), src.u8(), src.u8(), src.u8(), src.u8()];
        assume(bytes[0] < 128 && bytes[1] < 128 && bytes[2] < 128 && bytes[3] < 128 && bytes[4] < 128);
        let s = unsafe { std::str::from_utf8_unchecked(&bytes[..n]) };
        let d: StrDeserializer<E> = s.into_deserializer();
        let r = deserialize_limit(d);
        __verif_cover!("number, space, two-letter unit", n == 5 && bytes[0] == b'7' && bytes[2] == b' ' && bytes[3] == b'k' && bytes[4] == b'B');
        __verif_cover!("three-letter unit", n == 4 && bytes[1] == b'M' && bytes[2] == b'i' && bytes[3] == b'b');
        check(&bytes[..n], r);
    }
    fn digits_unit(src: &mut Src, nd: usize, unit: &[u8]) {
        let mut bytes = [0u8; 24];
        let mut i = 0;
        while i < nd { let d = src.u8(); assume(d < 10); bytes[i] = b'0' + d; i += 1; }
        let mut j = 0; while j < unit.len() { bytes[nd + j] = unit[j]; j += 1; }
        let total = nd + unit.len();
        let s = unsafe { std::str::from_utf8_unchecked(&bytes[..total]) };
        let d: StrDeserializer<E> = s.into_deserializer();
        let r = deserialize_limit(d);
        __verif_cover!("value above the overflow threshold", expect(&bytes[..total]).is_none());
        __verif_cover!("value below the overflow threshold", expect(&bytes[..total]).is_some());
        check(&bytes[..total], r);
    }
    pub(crate) fn body_tb8(src: &mut Src) { digits_unit(src, 8, b" tB") }
    pub(crate) fn body_gb11(src: &mut Src) { digits_unit(src, 11, b"Gb") }
    pub(crate) fn body_mb14(src: &mut Src) { digits_unit(src, 14, b" mib") }
    pub(crate) fn body_kb17(src: &mut Src) { digits_unit(src, 17, b"KB") }
    pub(crate) fn body_b20(src: &mut Src) { digits_unit(src, 20, b" b") }

    #[cfg(kani)] #[kani::proof] fn c20_size_u64() { let mut s = Src::new(); body_u64(&mut s); }
    #[cfg(kani)] #[kani::proof] fn c20_size_i64() { let mut s = Src::new(); body_i64(&mut s); }
    #[cfg(kani)] #[kani::proof] #[kani::unwind(8)] fn c20_size_ascii5() { let mut s = Src::new(); body_ascii5(&mut s); }
    #[cfg(kani)] #[kani::proof] #[kani::unwind(12)] fn c20_size_tb8() { let mut s = Src::new(); body_tb8(&mut s); }
    #[cfg(kani)] #[kani::proof] #[kani::unwind(15)] fn c20_size_gb11() { let mut s = Src::new(); body_gb11(&mut s); }
    #[cfg(kani)] #[kani::proof] #[kani::unwind(18)] fn c20_size_mb14() { let mut s = Src::new(); body_mb14(&mut s); }
    #[cfg(kani)] #[kani::proof] #[kani::unwind(21)] fn c20_size_kb17() { let mut s = Src::new(); body_kb17(&mut s); }
    #[cfg(kani)] #[kani::proof] #[kani::unwind(24)] fn c20_size_b20() { let mut s = Src::new(); body_b20(&mut s); }
}
