// contract header: std::mem::drop (in the prelude as `drop`): consumes its argument, nothing else. Declared here because Verus has
// no specification for core::mem::drop; a local item of that name shadows the prelude's.
pub fn drop<T>(_x: T) { }
