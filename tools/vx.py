#!/usr/bin/env python3
"""vx.py — mechanical extraction of real functions from /repo and weaving of contracts for Verus.

A *unit* is a template file /verif/specs/<unit>.vrs: ordinary Verus source (headers, spec functions,
lemmas — all ghost or `external_body` contract headers) plus directives (lines starting with `//@`)
that pull the *real* text of items out of /repo at check time:

  //@include <file under /verif/headers>
  //@item <relpath> :: <item path>            verbatim type/const/static definition (E2,E3)
  //@fn <relpath> :: <item path>              verbatim function (E2) with ghost insertions (E4):
  //@  attr <text>                              attribute line placed before the fn (ghost attrs only)
  //@  ret <ident>                              name the return value
  //@  id <label>                               label used in obligation ids instead of the fn name (same-named methods of two impls)
  //@  requires | ensures | decreases           clause lines follow, one clause ends at a line ending in ','
  //@  loop <n> iter <ident>                    name the ghost iterator of the n-th loop (a `for`)
  //@  loop <n> invariant | invariant_except_break | ensures | decreases     clause lines follow
  //@  at body-start | at loop <n> body-start | at loop <n> body-end | at after-loop <n> | at after-loop-inner <n> (R1 only: inside the block around the desugared loop)   ghost lines follow
  //@  desugar-for                              rule R1 on every `for` loop of the function
  //@end

Everything that is dropped or inserted is recorded in the weave report (evidence).
Anchors are structural (item path, loop ordinal); a lost anchor raises AnchorLost -> exit 2, never an alarm.
"""
import hashlib
import json
import os
import re
import subprocess
import sys
import time
from dataclasses import dataclass, field

sys.path.insert(0, os.path.dirname(os.path.abspath(__file__)))
import rsitems as rs  # noqa: E402

VERIF = os.path.dirname(os.path.dirname(os.path.abspath(__file__)))
REPO = os.environ.get('VERIF_REPO', '/repo')

DEFAULT_CFG = {
    'features': {
        'default', 'all_components', 'config_parsing', 'yaml_format', 'console_appender', 'file_appender',
        'rolling_file_appender', 'compound_policy', 'delete_roller', 'fixed_window_roller', 'size_trigger',
        'time_trigger', 'onstartup_trigger', 'json_encoder', 'pattern_encoder', 'threshold_filter',
        'console_writer', 'simple_writer', 'ansi_writer', 'humantime', 'serde', 'serde-value', 'typemap-ors',
        'serde_yaml', 'parking_lot', 'rand', 'chrono', 'log-mdc', 'thread-id', 'serde_json', 'libc',
    },
    'flags': {'unix'},
    'target_os': 'linux',
}


class AnchorLost(Exception):
    pass


class SpecError(Exception):
    pass


@dataclass
class Seg:
    text: str
    origin: dict


@dataclass
class FnInfo:
    name: str
    path: str
    relfile: str
    repo_line: int
    sha256: str
    clauses: dict = field(default_factory=dict)   # kind -> count
    loops: int = 0
    rules: list = field(default_factory=list)


def _split_clauses(lines):
    """one clause ends at a line whose stripped text ends with ','"""
    clauses, cur = [], []
    for ln in lines:
        if not ln.strip():
            continue
        cur.append(ln.rstrip('\n'))
        if ln.rstrip().endswith(','):
            clauses.append('\n'.join(cur))
            cur = []
    if cur:
        clauses.append('\n'.join(cur) + ',')
    return clauses


def _line_of(src, off):
    return src.count('\n', 0, off) + 1


class Weaver:
    def __init__(self, unit_path, repo=REPO, canary=False, cfg=None, inline_helpers=None, ghost_free=False, loopless_ok=False):
        self.unit_path = unit_path
        self.unit = os.path.splitext(os.path.basename(unit_path))[0]
        self.repo = repo
        self.canary = canary
        self.cfg = cfg or DEFAULT_CFG
        self.segs = []          # list of Seg
        self.fns = []           # FnInfo
        self.items = []
        self.dropped = []       # E3 report
        self.rules = []         # R1 / E6 applications
        self.assumptions = []   # external_body / assume_specification / uninterp occurrences
        self.inline_helpers = set(inline_helpers or [])
        self.loopless_ok = loopless_ok    # rule R4 (retry only): a function that has no loop any more is woven without its loop clauses
        self.ghost_free = ghost_free      # emit extracted functions with rule R1 applied but without any contract / proof text
        self._src_cache = {}
        # `//@cfg-bodies` anywhere in the unit: #[cfg(..)] inside extracted text is evaluated (rule E3 applied to bodies)
        self.cfg_bodies = '//@cfg-bodies' in open(unit_path).read()

    # ---------------------------------------------------------------- helpers
    def src(self, rel):
        if rel not in self._src_cache:
            p = os.path.join(self.repo, rel)
            if not os.path.exists(p):
                raise AnchorLost('file missing: %s' % rel)
            s = open(p).read()
            if self.cfg_bodies:
                s = rs.blank_cfg(s, self.cfg)
            self._src_cache[rel] = (s, rs.mask(s))
        return self._src_cache[rel]

    def emit(self, text, origin):
        if self.ghost_free:
            k = origin.get('k')
            what = origin.get('what', '')
            if k in ('clause', 'canary', 'tmpl', 'header'):
                return
            if k == 'ghost' and what not in ('R1', 'R3', 'R5', 'nl'):
                return
            if k == 'ghost-inline':
                return
        if text:
            self.segs.append(Seg(text, origin))

    def locate(self, rel, path):
        s, m = self.src(rel)
        try:
            return rs.find_item(s, [p.strip() for p in path.split(' :: ')], m, cfg=self.cfg)
        except rs.ScanError as e:
            raise AnchorLost('%s :: %s: %s' % (rel, path, e))

    # ---------------------------------------------------------------- items (E2/E3)
    def emit_item(self, rel, path, opts):
        s, m = self.src(rel)
        it = self.locate(rel, path)
        raw = s[it.start:it.end]
        txt = rs.strip_attrs_and_docs(raw, self.cfg)
        dropped = [a for a in it.attrs]
        inner = re.findall(r'#\s*\[[^\]]*\]', rs.mask(raw))
        self.dropped.append({'item': '%s :: %s' % (rel, path), 'attributes_dropped': len(dropped) + len(inner)})
        # visibility: make item and fields pub
        txt = re.sub(r'^(pub(\s*\([^)]*\))?\s+)?', 'pub ', txt, count=1)
        if it.kind == 'struct' and 'nopubfields' not in opts:
            txt = self._pub_fields(txt)
        if it.kind == 'struct' or it.kind == 'enum':
            # drop supertrait-like where clauses is not needed for types; nothing else changes
            pass
        line0 = _line_of(s, it.start)
        # E3: of the dropped attributes only the derives Verus understands are re-emitted
        keep = []
        for a in it.attrs:
            mm = re.match(r'^#\s*\[\s*derive\s*\((.*)\)\s*\]$', a, re.S)
            if mm:
                for d in mm.group(1).split(','):
                    d = d.strip()
                    if d in ('Copy', 'Clone', 'PartialEq', 'Eq') and d not in keep:
                        keep.append(d)
        if it.kind == 'enum' and 'PartialEq' in keep and 'Eq' in keep:
            # a field-less enum with derived PartialEq + Eq: `==` is equality of the variants. Verus learns this from its `Structural`
            # derive; without it `t == Target::Stderr` in exec code has an unspecified result and a `match` rewritten as `if ==` cannot
            # be followed (false alarm on benign/C/benign3.diff)
            mt = rs.mask(txt)
            b0 = mt.find('{')
            # (only for items at the top level of the unit: inside a `mod` block the derive makes Verus 0.2026.09.13 die with
            #  "VerusErasureCtxt has not been initialized")
            if b0 >= 0 and not re.search(r'[({]', mt[b0 + 1:rs.match_close(mt, b0)]) and getattr(self, '_tmpl_depth', 0) <= 1:
                keep.append('Structural')
        if keep and 'noderive' not in opts:
            self.emit('#[derive(%s)]\n' % ', '.join(keep), {'k': 'repo', 'file': rel, 'line': line0, 'item': path, 'what': 'derive subset'})
        for pre in opts.get('attr', []):
            self.emit(pre + '\n', {'k': 'ghost', 'what': 'attr'})
        self.emit(txt + '\n', {'k': 'repo', 'file': rel, 'line': line0, 'item': path})
        self.items.append({'item': path, 'file': rel, 'line': line0, 'sha256': hashlib.sha256(raw.encode()).hexdigest()[:16]})

    @staticmethod
    def _pub_fields(txt):
        m = rs.mask(txt)
        # named fields
        i = m.find('{')
        j = m.find('(')
        semi = m.find(';')
        if i >= 0 and (j < 0 or i < j):
            close = rs.match_close(m, i)
            out = txt[:i + 1]
            k = i + 1
            depth_start = True
            while k < close:
                # at a field start (depth 0 inside struct braces)
                mm = re.match(r'(\s*)(pub(\s*\([^)]*\))?\s+)?(r#)?(\w+)\s*:', m[k:close])
                if depth_start and mm:
                    out += txt[k:k + len(mm.group(1))] + 'pub ' + txt[k + len(mm.group(1)) + len(mm.group(2) or ''):k + mm.end()]
                    k += mm.end()
                    depth_start = False
                    continue
                c = m[k]
                if c in '([{<' and c != '<':
                    e = rs.match_close(m, k)
                    out += txt[k:e + 1]
                    k = e + 1
                    continue
                if c == ',':
                    depth_start = True
                out += txt[k]
                k += 1
            return out + txt[close:]
        if j >= 0 and (semi < 0 or j < semi):
            close = rs.match_close(m, j)
            inner = txt[j + 1:close]
            parts = rs._split_top(inner)
            # _split_top only tracks (), adequate for tuple structs in this crate
            parts = [re.sub(r'^(\s*)(pub(\s*\([^)]*\))?\s+)?', r'\1pub ', p) if p.strip() else p for p in parts]
            return txt[:j + 1] + ','.join(parts) + txt[close:]
        return txt

    # ---------------------------------------------------------------- functions (E2/E4/R1)
    def emit_fn(self, rel, path, d):
        s, m = self.src(rel)
        it = self.locate(rel, path)
        if it.kind != 'fn' or it.body is None:
            raise AnchorLost('%s :: %s is not a function with a body' % (rel, path))
        # rule R2: private helpers that the unit does not know (named by a previous "cannot find function" of Verus) are
        # inlined at their call sites when they cannot leave early; the rewritten text replaces the file in the cache
        for hname in sorted(self.inline_helpers):
            if hname == it.name:
                continue
            cands = [f for f in rs.all_fns(s, m) if f.name == hname]
            if len(cands) > 1:
                # several functions of that name in the file: for a `self.X(..)` / `Self::X(..)` call the one meant is a method of the
                # same self type as the function under contract
                def self_type(off):
                    best = None
                    def walk(lo, hi):
                        nonlocal best
                        for it2 in rs.items(s, lo, hi, m):
                            if it2.body is not None and it2.body[0] <= off < it2.body[1]:
                                if it2.kind == 'impl':
                                    nm = re.sub(r'^impl(\s*<[^>]*>)?\s*', '', it2.name)
                                    nm = nm.split(' for ')[-1]
                                    best = re.sub(r'<.*$', '', nm).strip()
                                if it2.kind in ('impl', 'mod', 'trait'):
                                    walk(it2.body[0], it2.body[1])
                    walk(0, len(s))
                    return best
                want = self_type(it.start)
                same = [f for f in cands if want is not None and self_type(f.start) == want]
                if len(same) == 1:
                    cands = same
            if len(cands) != 1:
                continue
            try:
                s2, ncalls = rs.inline_helper(s, it, cands[0])
            except rs.ScanError as e:
                self.rules.append({'rule': 'R2 helper inlining REFUSED: %s' % e, 'fn': it.name, 'loop': 0})
                continue
            self._src_cache[rel] = (s2, rs.mask(s2))
            s, m = self._src_cache[rel]
            it = self.locate(rel, path)
            self.rules.append({'rule': 'R2 helper inlining: %d call(s) of %s replaced by a block binding its parameters around its body' % (ncalls, hname), 'fn': it.name, 'loop': 0})
        raw = s[it.start:it.end]
        fname = d.get('id') or d.get('as') or it.name      # `id`: label used in obligation ids only (two impls with equally named methods)
        info = FnInfo(fname, path, rel, _line_of(s, it.start), hashlib.sha256(raw.encode()).hexdigest()[:16])
        header = s[it.start:it.header_end]
        # E3 on the header: drop visibility (re-added as pub)
        header_m = m[it.start:it.header_end]
        hm = re.match(r'\s*(pub(\s*\([^)]*\))?\s+)?', header_m)
        header = header[hm.end():]
        header_m = header_m[hm.end():]
        vis = '' if d.get('novis') else 'pub '
        # name the return value
        ret = d.get('ret')
        if ret:
            arrow = self._top_arrow(header_m)
            if arrow < 0:
                raise SpecError('%s: ret given but function has no return type' % path)
            wh = re.search(r'\bwhere\b', header_m[arrow:])
            tend = arrow + wh.start() if wh else len(header)
            ty = header[arrow + 2:tend].strip()
            header = header[:arrow] + '-> (' + ret + ': ' + ty + ')' + (' ' + header[tend:] if wh else ' ')
        if d.get('as'):
            header = re.sub(r'\bfn\s+' + re.escape(it.name) + r'\b', 'fn ' + d['as'], header, count=1)
        # R6: a wildcard parameter `_: T` gets a name (Verus wants identifiers; the parameter is unused either way)
        wn = [0]
        def _name_wild(mm):
            wn[0] += 1
            return mm.group(1) + '_unused%d:' % wn[0]
        header2 = re.sub(r'([(,]\s*)_\s*:', _name_wild, header)
        if header2 != header:
            header = header2
            self.rules.append({'rule': 'R6 wildcard parameter named', 'fn': fname, 'loop': 0})
            info.rules.append('R6')
        # R5: `fn f(mut self, ..) { BODY }`  ==>  `fn f(self, ..) { let mut __self = self; BODY[self := __self] }`
        # (Verus has no `mut self` parameters; the binding mode of a by-value parameter is local to the body)
        mut_self = bool(re.search(r'\(\s*mut\s+self\b', header))
        if mut_self:
            header = re.sub(r'\(\s*mut\s+self\b', '(self', header, count=1)
            self.rules.append({'rule': 'R5 mut-self parameter rebound as a local', 'fn': fname, 'loop': 0})
            info.rules.append('R5')
        for a in d.get('attr', []):
            self.emit(a + '\n', {'k': 'ghost', 'fn': fname, 'what': 'attr'})
        self.emit(vis + header.rstrip() + '\n', {'k': 'repo', 'file': rel, 'line': info.repo_line, 'fn': fname, 'what': 'signature'})
        for kind in ('requires', 'ensures', 'decreases'):
            cl = d.get(kind, [])
            if kind == 'ensures' and False:
                pass
            if cl:
                self.emit('    ' + kind + '\n', {'k': 'ghost', 'fn': fname, 'what': kind})
                for idx, c in enumerate(cl):
                    self.emit(c + '\n', {'k': 'clause', 'fn': fname, 'kind': kind, 'idx': idx})
                info.clauses[kind] = len(cl)
        # body
        lo, hi = it.body
        body_loops = rs.loops(s, lo, hi, m)
        info.loops = len(body_loops)
        want_loops = sorted(set(int(k) for k in d.get('loops', {}).keys()) | set(int(k) for k in d.get('at_loop', {}).keys()))
        if want_loops and not body_loops and self.loopless_ok:
            # R4: the loop went away (moved into a helper, replaced by a field read, ...): loop invariants are proof aids, the
            # function contract stays as it is and is what gets checked
            self.rules.append({'rule': 'R4 loop clauses dropped: the function has no loop any more', 'fn': fname, 'loop': 0, 'dropped_loops': want_loops})
            info.rules.append('R4')
            d = dict(d); d['loops'] = {}; d['at_loop'] = {}
            want_loops = []
        for n in want_loops:
            if n < 1 or n > len(body_loops):
                raise AnchorLost('%s :: %s: loop %d not found (function has %d loops)' % (rel, path, n, len(body_loops)))
        # insertion list: (offset, order, text, origin, inline)
        ins = []

        def add(off, order, text, origin):
            ins.append((off, order, text, origin))

        if mut_self:
            add(lo, -1, ' let mut __self = self;', {'k': 'ghost', 'fn': fname, 'what': 'R5'})
        if d.get('at', {}).get('body-start') or self.canary:
            txt = ''
            if self.canary:
                add(lo, 0, '\nproof { assert(false); } // CANARY\n', {'k': 'canary', 'fn': fname})
            if d.get('at', {}).get('body-start'):
                add(lo, 1, '\n' + '\n'.join(d['at']['body-start']) + '\n', {'k': 'ghost', 'fn': fname, 'what': 'at body-start'})
        if d.get('at', {}).get('body-end'):
            # structural anchor: just before the tail expression of the function body (the text after the last top-level
            # `;` or statement-ending `}`); if the body has no such shape the anchor is lost (exit 2)
            j = hi - 1
            while j > lo and m[j].isspace():
                j -= 1
            if m[j] in ';}':
                pos_end = j + 1          # no tail expression: insert at the very end
            else:
                depth = 0
                k = j
                pos_end = None
                while k > lo:
                    c = m[k]
                    if depth == 0 and c == ';':
                        pos_end = k + 1
                        break
                    if depth == 0 and c == '}' and k < j:
                        # a block statement ends here only if what follows does not continue the expression
                        rest = m[k + 1:j + 1].lstrip()
                        if not rest.startswith(('.', '?', 'else')):
                            pos_end = k + 1
                            break
                    if c in ')]}':
                        depth += 1
                    elif c in '([{':
                        depth -= 1
                    k -= 1
                if pos_end is None:
                    raise AnchorLost('%s :: %s: body-end anchor: no statement boundary before the tail expression' % (rel, path))
            add(pos_end, 1, '\n' + '\n'.join(d['at']['body-end']) + '\n', {'k': 'ghost', 'fn': fname, 'what': 'at body-end'})
        desugar = d.get('desugar_for', False)
        for n, lp in enumerate(body_loops, start=1):
            spec = d.get('loops', {}).get(str(n), {})
            atl = d.get('at_loop', {}).get(str(n), {})
            clauses_txt = []
            for kind in ('invariant_except_break', 'invariant', 'ensures', 'decreases'):
                cl = spec.get(kind, [])
                if cl:
                    clauses_txt.append(('        ' + kind + '\n', {'k': 'ghost', 'fn': fname, 'what': 'loop %d %s' % (n, kind)}))
                    for idx, c in enumerate(cl):
                        clauses_txt.append((c + '\n', {'k': 'clause', 'fn': fname, 'kind': 'loop%d.%s' % (n, kind), 'idx': idx}))
                    info.clauses['loop%d.%s' % (n, kind)] = len(cl)
            r3 = None
            if lp.kind == 'for':
                # R3: `for &x in EXPR { BODY }`  ==>  `for x in EXPR { let x = *x; BODY }` (Verus has no reference patterns;
                # identical for the Copy element types the rule is restricted to by rustc itself: `&x` moves out of the reference)
                pat0 = s[lp.kw + 3:lp.in_kw]
                m3 = re.fullmatch(r'\s*&\s*([A-Za-z_][A-Za-z0-9_]*)\s*', pat0)
                if m3:
                    r3 = m3.group(1)
                    self.rules.append({'rule': 'R3 deref-pattern', 'fn': fname, 'loop': n, 'pattern': pat0.strip(), 'repo_line': _line_of(s, lp.kw)})
                    info.rules.append('R3@loop%d' % n)
                    add(lp.body_open + 1, 4, ' let %s = *%s;' % (r3, r3), {'k': 'ghost', 'fn': fname, 'what': 'R3'})
                    if not desugar:
                        amp = lp.kw + 3 + pat0.index('&')
                        ins.append((amp, -1, ('CUT', amp + 1), None))
            if lp.kind == 'for' and desugar:
                # R1: for PAT in EXPR { BODY }  ==>  { let mut __itN = (EXPR).into_iter(); loop INV { match __itN.next() { None => break, Some(PAT) => { BODY } } } }
                pat = r3 if r3 else s[lp.kw + 3:lp.in_kw].strip()
                expr = s[lp.in_kw + 2:lp.body_open].strip()
                self.rules.append({'rule': 'R1 for-desugaring', 'fn': fname, 'loop': n, 'pattern': pat, 'expr': expr, 'repo_line': _line_of(s, lp.kw)})
                info.rules.append('R1@loop%d' % n)
                # replace header text [lp.start, lp.body_open] by desugared prologue
                add(lp.start, 0, ('{ let mut __it%d = (' % n), {'k': 'ghost', 'fn': fname, 'what': 'R1'})
                # mark deletion of "for PAT in " and keep EXPR verbatim: handled through cut list
                ins.append((lp.start, -1, ('CUT', lp.in_kw + 2), None))
                add(lp.body_open, 0, ').into_iter();', {'k': 'ghost', 'fn': fname, 'what': 'R1'})
                # ghost snapshot of everything the iterator will yield (proof aid only; absent from the text of the translation check)
                add(lp.body_open, 0, ' let ghost __all%d = __it%d.remaining();' % (n, n), {'k': 'ghost', 'fn': fname, 'what': 'R1-snapshot'})
                add(lp.body_open, 0, ' loop\n', {'k': 'ghost', 'fn': fname, 'what': 'R1'})
                k = 1
                for t, o in clauses_txt:
                    add(lp.body_open, k, t, o)
                    k += 1
                add(lp.body_open + 1, 0, ' match __it%d.next() { None => break, Some(%s) => {' % (n, pat), {'k': 'ghost', 'fn': fname, 'what': 'R1'})
                add(lp.body_close, 9, ' } } }', {'k': 'ghost', 'fn': fname, 'what': 'R1'})
                # the final '}' of the original loop closes the outer block
            else:
                if spec.get('iter'):
                    if lp.kind != 'for':
                        raise SpecError('%s loop %d: iter on a non-for loop' % (path, n))
                    add(lp.in_kw + 2, 0, ' ' + spec['iter'] + ':', {'k': 'ghost-inline', 'fn': fname, 'what': 'iter name'})
                k = 0
                if clauses_txt:
                    add(lp.body_open, k, '\n', {'k': 'ghost', 'fn': fname, 'what': 'nl'})
                    k += 1
                for t, o in clauses_txt:
                    add(lp.body_open, k, t, o)
                    k += 1
            if atl.get('body-start'):
                add(lp.body_open + 1, 5, '\n' + '\n'.join(atl['body-start']) + '\n', {'k': 'ghost', 'fn': fname, 'what': 'at loop %d body-start' % n})
            if atl.get('body-end'):
                # make sure the last statement is terminated
                j = lp.body_close - 1
                while j > lp.body_open and m[j].isspace():
                    j -= 1
                term = '' if m[j] in ';}{' else ';'
                add(lp.body_close, 1, term + '\n' + '\n'.join(atl['body-end']) + '\n', {'k': 'ghost', 'fn': fname, 'what': 'at loop %d body-end' % n})
            if atl.get('after'):
                add(lp.body_close + 1, 1, '\n' + '\n'.join(atl['after']) + '\n', {'k': 'ghost', 'fn': fname, 'what': 'at after-loop %d' % n})
            if atl.get('after-inner'):
                if not (lp.kind == 'for' and desugar):
                    raise SpecError('%s loop %d: after-loop-inner needs desugar-for on a for loop' % (path, n))
                # inside the block R1 opens around the loop (so that __itN / __allN are still in scope), after the `loop` itself
                add(lp.body_close, 10, '\n' + '\n'.join(atl['after-inner']) + '\n', {'k': 'ghost', 'fn': fname, 'what': 'at after-loop-inner %d' % n})
        # assemble: walk offsets from it.header_end to it.end
        cuts = [(o, t[1]) for (o, order, t, org) in ins if isinstance(t, tuple)]
        ins = [x for x in ins if not isinstance(x[2], tuple)]
        ins.sort(key=lambda x: (x[0], x[1]))
        pos = it.header_end
        end = it.end
        ii = 0

        unit_closure = [False]

        def r5(a, b):
            # R7: a closure parameter written as the unit pattern `|()|` is given a name and its type (`|_u: ()|`); Verus wants
            # identifiers for closure parameters, the value is `()` either way
            txt7 = s[a:b]
            if re.search(r'\|\s*\(\s*\)\s*\|', m[a:b]):
                out7, last7 = [], a
                for mm7 in re.finditer(r'\|\s*\(\s*\)\s*\|', m[a:b]):
                    out7.append(s[last7:a + mm7.start()]); out7.append('|_u: ()|'); last7 = a + mm7.end()
                out7.append(s[last7:b])
                txt7 = ''.join(out7)
                if not unit_closure[0]:
                    unit_closure[0] = True
                    self.rules.append({'rule': 'R7 unit closure parameter named', 'fn': fname, 'loop': 0})
                    info.rules.append('R7')
                if not mut_self:
                    return txt7
            if not mut_self:
                return s[a:b]
            out, last = [], a
            for mm in re.finditer(r'\bself\b', m[a:b]):      # m: comments and string literals blanked
                out.append(s[last:a + mm.start()]); out.append('__self'); last = a + mm.end()
            out.append(s[last:b])
            return ''.join(out)

        def emit_repo(a, b):
            # honour cuts
            while a < b:
                cut = next(((c0, c1) for (c0, c1) in sorted(cuts) if c0 >= a and c0 < b), None)
                if cut is None:
                    self.emit(r5(a, b), {'k': 'repo', 'file': rel, 'line': _line_of(s, a), 'fn': fname})
                    return
                if cut[0] > a:
                    self.emit(r5(a, cut[0]), {'k': 'repo', 'file': rel, 'line': _line_of(s, a), 'fn': fname})
                a = cut[1]
                cuts.remove(cut)

        while ii < len(ins):
            off, order, text, origin = ins[ii]
            if off > pos:
                emit_repo(pos, off)
                pos = off
            # a cut starting here: skip the cut text *after* emitting insertions at this offset with order<=0
            self.emit(text, origin)
            ii += 1
            # apply cuts that start at pos once all insertions at this offset are emitted
            if ii >= len(ins) or ins[ii][0] != off:
                for c in sorted(cuts):
                    if c[0] == pos:
                        pos = c[1]
                        cuts.remove(c)
        emit_repo(pos, end)
        self.emit('\n', {'k': 'ghost', 'what': 'nl'})
        self.fns.append(info)

    @staticmethod
    def _top_arrow(hm):
        depth = 0
        for i, c in enumerate(hm):
            if c in '([':
                depth += 1
            elif c in ')]':
                depth -= 1
            elif c == '-' and depth == 0 and hm[i:i + 2] == '->':
                return i
        return -1

    # ---------------------------------------------------------------- template
    def weave(self):
        lines = open(self.unit_path).read().split('\n')
        i = 0
        n = len(lines)
        while i < n:
            ln = lines[i]
            st = ln.strip()
            if st.startswith('//@include '):
                f = st[len('//@include '):].strip()
                p = os.path.join(VERIF, 'headers', f)
                txt = open(p).read()
                self.emit(txt if txt.endswith('\n') else txt + '\n', {'k': 'header', 'file': 'headers/' + f, 'line': 1})
                i += 1
            elif st.startswith('//@cfg-bodies'):
                self.rules.append({'rule': 'E3 cfg evaluation inside bodies (default features, not(test))', 'fn': '*', 'loop': 0})
                i += 1
            elif st.startswith('//@item '):
                spec = st[len('//@item '):]
                opts = {}
                mm = re.match(r'^(.*?)\s+\[(.*)\]$', spec)
                if mm:
                    spec = mm.group(1)
                    for o in mm.group(2).split(';'):
                        o = o.strip()
                        if o.startswith('attr '):
                            opts.setdefault('attr', []).append(o[5:])
                        else:
                            opts[o] = True
                rel, path = spec.split(' :: ', 1)
                self.emit_item(rel.strip(), path.strip(), opts)
                i += 1
            elif st.startswith('//@fn '):
                rel, path = st[len('//@fn '):].split(' :: ', 1)
                d = {'loops': {}, 'at': {}, 'at_loop': {}}
                i += 1
                cur = None   # (target list)
                while i < n and lines[i].strip() != '//@end':
                    l2 = lines[i]
                    s2 = l2.strip()
                    if s2.startswith('//@'):
                        body = s2[3:].strip()
                        tok = body.split()
                        cur = None
                        if tok[0] == 'ret':
                            d['ret'] = tok[1]
                        elif tok[0] == 'as':
                            d['as'] = tok[1]
                        elif tok[0] == 'id':
                            d['id'] = tok[1]
                        elif tok[0] == 'novis':
                            d['novis'] = True
                        elif tok[0] == 'attr':
                            d.setdefault('attr', []).append(body[5:])
                        elif tok[0] in ('requires', 'ensures', 'decreases'):
                            cur = ('clauses', d.setdefault('_raw_' + tok[0], []))
                            d.setdefault('_order', []).append(tok[0])
                        elif tok[0] == 'desugar-for':
                            d['desugar_for'] = True
                        elif tok[0] == 'loop':
                            nn = tok[1]
                            lp = d['loops'].setdefault(nn, {})
                            if tok[2] == 'iter':
                                lp['iter'] = tok[3]
                            else:
                                cur = ('clauses', lp.setdefault('_raw_' + tok[2], []))
                        elif tok[0] == 'at':
                            if tok[1] == 'body-start':
                                cur = ('text', d['at'].setdefault('body-start', []))
                            elif tok[1] == 'body-end':
                                cur = ('text', d['at'].setdefault('body-end', []))
                            elif tok[1] == 'loop':
                                cur = ('text', d['at_loop'].setdefault(tok[2], {}).setdefault(tok[3], []))
                            elif tok[1] == 'after-loop':
                                cur = ('text', d['at_loop'].setdefault(tok[2], {}).setdefault('after', []))
                            elif tok[1] == 'after-loop-inner':
                                cur = ('text', d['at_loop'].setdefault(tok[2], {}).setdefault('after-inner', []))
                            else:
                                raise SpecError('bad at: ' + s2)
                        else:
                            raise SpecError('unknown directive: ' + s2)
                    else:
                        if cur is None:
                            if s2:
                                raise SpecError('stray text in fn block: ' + l2)
                        else:
                            cur[1].append(l2)
                    i += 1
                if i >= n:
                    raise SpecError('missing //@end')
                i += 1
                for kind in ('requires', 'ensures', 'decreases'):
                    if '_raw_' + kind in d:
                        d[kind] = _split_clauses(d['_raw_' + kind])
                for lp in d['loops'].values():
                    for k in list(lp.keys()):
                        if k.startswith('_raw_'):
                            lp[k[5:]] = _split_clauses(lp[k])
                self.emit_fn(rel.strip(), path.strip(), d)
            else:
                ml = rs.mask(ln)
                self._tmpl_depth = getattr(self, '_tmpl_depth', 0) + ml.count('{') - ml.count('}')
                self.emit(ln + '\n', {'k': 'tmpl', 'line': i + 1})
                i += 1
        return self.render()

    def render(self):
        text = ''.join(sg.text for sg in self.segs)
        # line map
        linemap = []   # per generated line: list of origins touching it
        cur = []
        for sg in self.segs:
            parts = sg.text.split('\n')
            base_line = sg.origin.get('line')
            for pi, part in enumerate(parts):
                if pi > 0:
                    linemap.append(cur)
                    cur = []
                if part != '' or pi == 0:
                    o = dict(sg.origin)
                    if base_line is not None and o.get('k') in ('repo', 'header'):
                        o['line'] = base_line + pi
                    if part.strip() != '':
                        cur.append(o)
        linemap.append(cur)
        # assumptions scan
        masked = rs.mask(text)
        for kw in ('external_body', 'assume_specification', 'uninterp', 'admit(', 'assume(', 'external_fn_specification', 'external_type_specification', 'exec_allows_no_decreases_clause', 'external]'):
            c = len(re.findall(re.escape(kw), masked))
            if c:
                self.assumptions.append({'construct': kw, 'occurrences': c})
        return text, linemap


# ---------------------------------------------------------------------- running Verus

VERIFICATION_MESSAGES = [
    'postcondition not satisfied', 'precondition not satisfied', 'invariant not satisfied',
    'possible arithmetic underflow/overflow', 'possible division by zero', 'assertion failed',
    'index out of bounds', 'possible bit shift underflow/overflow', 'decreases not satisfied',
    'loop invariant not satisfied', 'recommendation not met', 'unreachable', 'cannot prove termination',
    'could not prove termination', 'possible overflow', 'loop ensures not satisfied', 'failed this',
    'possible truncation', 'constructor precondition', 'requirement not satisfied',
    'precondition not met', 'postcondition not met', 'might panic', 'cannot show', 'failed to prove',
]
UNDECIDED_MESSAGES = ['Resource limit (rlimit) exceeded', 'rlimit', 'timed out', 'SMT solver']


def run_verus(path, logdir=None, rlimit=30, multiple_errors=20, timeout=600):
    cmd = ['verus', path, '--output-json', '--time', '--rlimit', str(rlimit), '--multiple-errors', str(multiple_errors),
           '--error-format=json']
    if logdir:
        cmd += ['--log', 'air-final', '--log-dir', logdir]
    t0 = time.time()
    try:
        p = subprocess.run(cmd, capture_output=True, text=True, timeout=timeout, cwd=os.path.dirname(path))
    except subprocess.TimeoutExpired:
        return {'rc': -1, 'timeout': True, 'wall_s': time.time() - t0, 'diagnostics': [], 'json': None, 'cmd': ' '.join(cmd), 'stderr': ''}
    diags = []
    for ln in p.stderr.split('\n'):
        ln = ln.strip()
        if ln.startswith('{') and '"$message_type"' in ln:
            try:
                diags.append(json.loads(ln))
            except Exception:
                pass
    js = None
    out = p.stdout
    k = out.find('{')
    if k >= 0:
        try:
            js = json.loads(out[k:])
        except Exception:
            # stdout may carry the "verification results::" line before the JSON
            k2 = out.find('\n{')
            try:
                js = json.loads(out[k2 + 1:])
            except Exception:
                js = None
    return {'rc': p.returncode, 'timeout': False, 'wall_s': time.time() - t0, 'diagnostics': diags, 'json': js,
            'cmd': ' '.join(cmd), 'stderr': p.stderr, 'stdout': p.stdout}


def air_obligations(logdir):
    """count `(location ...)` entries per Function-Def query in the AIR log: these are the proof
    obligations Verus generated (one per postcondition clause per return point, per callee precondition,
    per invariant (entry / preserved), per arithmetic / bounds / unwrap check)."""
    res = {}
    if not logdir or not os.path.isdir(logdir):
        return res
    for f in os.listdir(logdir):
        if not f.endswith('.air'):
            continue
        txt = open(os.path.join(logdir, f)).read()
        cur = None
        prev_loc = False
        for ln in txt.split('\n'):
            mm = re.match(r'^;; (Function-\S+) (\S+)', ln)
            if mm:
                cur = mm.group(2) if mm.group(1) in ('Function-Def', 'Function-Decl-Check-Recursive-Spec', 'Function-Termination', 'Function-Expand-Errors') else None
                continue
            if cur is None:
                continue
            mm = re.match(r'^\s*\("([^"]*)"', ln)
            if mm and prev_loc:
                d = res.setdefault(cur, {})
                d[mm.group(1)] = d.get(mm.group(1), 0) + 1
            prev_loc = ln.strip() == '(location'
            if False:
                pass
    return res


def classify(diag, linemap):
    """map a Verus diagnostic to (class, obligation-dict). class in {verification, undecided, tool, note}"""
    msg = diag.get('message', '')
    lvl = diag.get('level')
    if lvl in ('warning', 'note', 'help'):
        return 'note', None
    if msg.startswith('aborting due to'):
        return 'note', None
    prim = [sp for sp in diag.get('spans', []) if sp.get('is_primary')]
    sec = [sp for sp in diag.get('spans', []) if not sp.get('is_primary')]
    is_ver = any(msg.startswith(v) or v in msg for v in VERIFICATION_MESSAGES)
    # a diagnostic that carries a rustc error code (E0599 "... trait bounds were not satisfied", E0308, ...) is a front-end
    # error about text the verifier could not take, never a failed proof obligation (Verus' own verification errors have no code)
    if (diag.get('code') or {}).get('code'):
        is_ver = False
    if any(u in msg for u in UNDECIDED_MESSAGES):
        return 'undecided', {'message': msg}
    if not is_ver:
        return 'tool', {'message': msg, 'rendered': diag.get('rendered', '')[:2000]}
    ob = {'message': msg}

    def org(sp):
        ln = sp['line_start']
        if 1 <= ln <= len(linemap):
            return linemap[ln - 1]
        return []

    def pick(orgs, kinds):
        for o in orgs:
            if o.get('k') in kinds:
                return o
        return None

    porgs = org(prim[0]) if prim else []
    ob['gen_line'] = prim[0]['line_start'] if prim else None
    ob['text'] = (prim[0]['text'][0]['text'].strip() if prim and prim[0].get('text') else '')
    fn = None
    for o in porgs:
        if o.get('fn'):
            fn = o['fn']
    c = pick(porgs, ('clause',))
    r = pick(porgs, ('repo',))
    cn = pick(porgs, ('canary',))
    if cn:
        ob.update(kind='canary', fn=cn['fn'], id='%s#canary' % cn['fn'])
        return 'verification', ob
    if c:
        ob.update(kind=c['kind'], fn=c['fn'], idx=c['idx'], id='%s#%s[%d]' % (c['fn'], c['kind'], c['idx']))
        # where in the repo did control reach the failing clause (secondary span)?
        for sp in sec:
            rr = pick(org(sp), ('repo',))
            if rr:
                ob['at'] = '%s:%d' % (rr['file'], rr['line'])
                break
    elif r:
        kind = {'possible arithmetic underflow/overflow': 'overflow', 'possible division by zero': 'div0',
                'precondition not satisfied': 'pre-of-callee', 'index out of bounds': 'bounds',
                'assertion failed': 'assert', 'precondition not met: index in bounds for this access': 'bounds'}.get(msg, re.sub(r'\W+', '-', msg)[:30])
        ob.update(kind=kind, fn=r.get('fn'), at='%s:%d' % (r['file'], r['line']))
        callee = ''
        for sp in sec:
            if sp.get('label') and 'failed precondition' in sp['label'] and sp.get('text'):
                callee = sp['text'][0]['text'].strip()
        if callee:
            ob['callee_clause'] = callee
        ob['id'] = '%s#%s@%s' % (r.get('fn'), kind, ob['text'][:60])
    else:
        g = pick(porgs, ('ghost', 'tmpl', 'header', 'ghost-inline'))
        if '/*OB*/' in ob['text']:
            # an obligation that can only be written as an assertion at an anchor (state behind a lock guard, not nameable in `ensures`)
            ob.update(kind='assert-obligation', fn=fn or (g or {}).get('fn'), id='%s#obligation@%s' % (fn or (g or {}).get('fn'), ob['text'].replace('/*OB*/', '').strip()[:60]))
            return 'verification', ob
        # a step of the committed proof script (hint assertion, lemma precondition): its failure says that the script no longer fits the
        # current text, not that a contract clause is violated - undecided, never an alarm (a real violation also fails a clause)
        ob.update(kind='proof-step', fn=fn or (g or {}).get('fn'), id='%s#proof-step@%s' % (fn or (g or {}).get('fn'), ob['text'][:60]))
        ob['message'] = 'a step of the proof script failed (%s): %s' % (msg, ob['text'][:120])
        return 'undecided', ob
    return 'verification', ob


if __name__ == '__main__':
    import argparse
    ap = argparse.ArgumentParser()
    ap.add_argument('unit')
    ap.add_argument('--out', default=None)
    ap.add_argument('--canary', action='store_true')
    ap.add_argument('--run', action='store_true')
    a = ap.parse_args()
    w = Weaver(a.unit, canary=a.canary)
    try:
        text, linemap = w.weave()
    except AnchorLost as e:
        print('ANCHOR-LOST', e)
        sys.exit(2)
    out = a.out or ('/tmp/vx_%s.rs' % w.unit)
    open(out, 'w').write(text)
    print('wrote', out, len(text.split('\n')), 'lines;', len(w.fns), 'functions', len(w.items), 'items')
    if a.run:
        r = run_verus(out, logdir=out + '.log')
        print('rc', r['rc'], 'wall', round(r['wall_s'], 1))
        if r['json']:
            print(r['json'].get('verification-results'))
        for dg in r['diagnostics']:
            cl, ob = classify(dg, linemap)
            if cl != 'note':
                print(cl, json.dumps(ob)[:600])
        print(json.dumps(air_obligations(out + '.log'), indent=1)[:3000])
