#!/usr/bin/env python3
"""benign_matrix.py <dir-with-*.diff> ... — false-alarm test: apply each behaviour-preserving diff to a scratch copy of /repo
(never /repo itself), run the checks of the properties whose units read the changed files, and report the exit codes.
Expected: 0 (still verified) or 2 (undecided: lost anchor / construct outside the verifier) — never 1."""
import glob, json, os, re, shutil, subprocess, sys, concurrent.futures as cf
V = os.path.dirname(os.path.dirname(os.path.abspath(__file__)))
FILE2PROPS = [
    ('src/lib.rs', ['C02', 'C03']), ('src/filter/threshold.rs', ['C03']), ('src/config/mod.rs', ['C02']),
    ('src/append/rolling_file/mod.rs', ['C05']), ('src/append/rolling_file/policy/compound/mod.rs', ['C05']),
    ('src/append/rolling_file/policy/compound/trigger/size.rs', ['C06', 'C20']), ('src/append/rolling_file/policy/compound/trigger/onstartup.rs', ['C17']),
    ('src/append/file.rs', ['C04']), ('src/config/runtime.rs', ['C13']),
    ('src/append/console.rs', ['C18']), ('src/encode/writer/ansi.rs', ['C18']), ('src/encode/writer/console.rs', ['C18']),
    ('src/encode/pattern/mod.rs', ['C10']), ('src/encode/pattern/parser.rs', ['C11']),
    ('src/append/rolling_file/policy/compound/trigger/time.rs', ['C16', 'C20']),
    ('src/append/rolling_file/policy/compound/roll/fixed_window.rs', ['C07']), ('src/append/rolling_file/policy/compound/roll/delete.rs', ['C07']),
    ('src/config/raw.rs', ['C20']),
]


def run(job):
    diff, pid = job
    name = os.path.basename(os.path.dirname(diff)) + '-' + os.path.splitext(os.path.basename(diff))[0]
    tag = '-' + name + '-' + pid
    tmp = '/tmp/seedrepo/' + name + '-' + pid
    shutil.rmtree(tmp, ignore_errors=True)
    os.makedirs(tmp)
    subprocess.run(['rsync', '-a', '--exclude', 'target', '/repo/', tmp + '/'], check=True)
    ap = subprocess.run(['git', 'apply', diff], cwd=tmp, capture_output=True, text=True)
    if ap.returncode != 0:
        shutil.rmtree(tmp, ignore_errors=True)
        return name, pid, None, ['patch does not apply: ' + ap.stderr[:200]]
    env = dict(os.environ, VERIF_REPO=tmp, VERIF_TAG=tag, VERIF_SCRATCH='/tmp/verif-scratch-seeds')
    p = subprocess.run([os.path.join(V, 'check'), pid, '--tier', 'quick'], cwd=V, env=env, capture_output=True, text=True)
    lines = [l[:260] for l in p.stdout.split('\n') if re.match(r'^(VIOLATION|UNDECIDED|OK)', l)]
    shutil.rmtree(tmp, ignore_errors=True)
    shutil.rmtree(os.path.expanduser('~/.cache/log4rs-verif/kani-%s%s' % (pid, tag)), ignore_errors=True)
    shutil.rmtree(os.path.expanduser('~/.cache/log4rs-verif/native-target%s' % tag), ignore_errors=True)
    if p.returncode != 1:
        shutil.rmtree(os.path.join(V, '.work', pid + tag), ignore_errors=True)
        for f in glob.glob(os.path.join(V, 'replays', '%s%s-*' % (pid, tag))):
            os.remove(f)
    return name, pid, p.returncode, lines


if __name__ == '__main__':
    jobs = []
    for d in sys.argv[1:]:
        for diff in sorted(glob.glob(os.path.join(os.path.abspath(d), '*.diff'))):
            files = re.findall(r'^\+\+\+ b/(\S+)', open(diff).read(), re.M)
            pids = []
            for f, ps in FILE2PROPS:
                if f in files:
                    pids += [p for p in ps if p not in pids]
            for pid in pids:
                jobs.append((diff, pid))
    with cf.ThreadPoolExecutor(int(os.environ.get('SEED_JOBS', '3'))) as ex:
        for name, pid, rc, lines in ex.map(run, jobs):
            print(name, pid, rc, lines[:3], flush=True)
