//@file src/encode/pattern/parser.rs
//@harness c11_integer_digits unwind=24 strength=bounded bound="every decimal digit string of length <= 21 (covers 2^64 = 20 digits) followed by '}' or end of input" timeout=3000 body=body
// Parser::integer: "absurd widths" must not panic. Contract: no arithmetic overflow for any digit string; the value
// returned is the value of the digits consumed; digits are consumed only while the value fits in usize.
#[cfg(any(kani, verif_replay))]
#[allow(dead_code, unused)]
mod __verif_c11 {
    use super::*;
    use crate::__verif_rt::*;
    use crate::{__verif_ob, __verif_cover};
    pub(crate) fn body(src: &mut Src) {
        let n = src.u8() as usize; assume(n <= 21);
        let closed = src.bool();
        let mut bytes = [b'}'; 22];
        let mut i = 0;
        while i < 21 { let d = src.u8(); assume(d < 10); if i < n { bytes[i] = b'0' + d; } i += 1; }
        let total = if closed { n + 1 } else { n };
        let s = unsafe { std::str::from_utf8_unchecked(&bytes[..total]) };
        let mut p = Parser::new(s);
        let r = p.integer();
        // oracle: longest prefix of the digits whose value fits in usize
        let mut val: u128 = 0; let mut k = 0usize;
        while k < n { let nv = val * 10 + (bytes[k] - b'0') as u128; if nv > usize::MAX as u128 { break; } val = nv; k += 1; }
        let pos = match p.it.peek() { Some(&(pos, _)) => pos, None => total };
        __verif_cover!("a 20-digit number above usize::MAX", n == 20 && k < 20);
        __verif_cover!("a 21-digit number", n == 21);
        __verif_ob!("integer#post None iff there is no digit", r.is_none() == (n == 0));
        __verif_ob!("integer#post consumes digits only while the value fits in usize", pos == k);
        __verif_ob!("integer#post a width that fits in usize is read exactly", !(n > 0 && k == n) || r == Some(val as usize));
    }
    #[cfg(kani)]
    #[kani::proof]
    #[kani::unwind(24)]
    fn c11_integer_digits() { let mut s = Src::new(); body(&mut s); }
}
