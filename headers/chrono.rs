// contract header (assumed): the parts of `chrono` that TimeTrigger::get_next_time uses.
//  civil(d)        the local wall-clock fields (year, month 1..12, day, hour, minute, second) of d
//  instant(d)      seconds since the epoch
//  local_unique(..)/local_instant(..): whether a wall-clock reading denotes exactly one instant in the local zone
//                  (false in a DST gap or overlap) and, if so, which one. Nothing relates local_unique to the code:
//                  `LocalResult::unwrap` REQUIRES it, which is how the DST obligation surfaces.
pub struct Local;
#[verifier::external_body]
#[verifier::accept_recursive_types(Tz)]
pub struct DateTime<Tz> { _p: std::marker::PhantomData<Tz> }
#[verifier::external_body]
pub struct Duration { _p: () }
#[verifier::external_body]
pub struct IsoWeek { _p: () }
#[verifier::external_body]
pub struct Weekday { _p: () }
pub enum LocalResult<T> { None, Single(T), Ambiguous(T, T) }

impl<Tz> Clone for DateTime<Tz> { #[verifier::external_body] fn clone(&self) -> (r: Self) ensures r == *self { unimplemented!() } }
impl<Tz> Copy for DateTime<Tz> {}
pub uninterp spec fn clock_reading(d: DateTime<Local>) -> bool;      // d was read from the wall clock during this call
impl PartialEq for DateTime<Local> { #[verifier::external_body] fn eq(&self, o: &DateTime<Local>) -> (r: bool) ensures r == (instant(*self) == instant(*o)) { unimplemented!() } }
impl PartialOrd for DateTime<Local> {
    #[verifier::external_body] fn partial_cmp(&self, o: &DateTime<Local>) -> Option<std::cmp::Ordering> { unimplemented!() }
    #[verifier::external_body] fn ge(&self, o: &DateTime<Local>) -> (r: bool) ensures r == (instant(*self) >= instant(*o)) { unimplemented!() }
    #[verifier::external_body] fn gt(&self, o: &DateTime<Local>) -> (r: bool) ensures r == (instant(*self) > instant(*o)) { unimplemented!() }
    #[verifier::external_body] fn le(&self, o: &DateTime<Local>) -> (r: bool) ensures r == (instant(*self) <= instant(*o)) { unimplemented!() }
    #[verifier::external_body] fn lt(&self, o: &DateTime<Local>) -> (r: bool) ensures r == (instant(*self) < instant(*o)) { unimplemented!() }
}
pub uninterp spec fn civil(d: DateTime<Local>) -> (int, int, int, int, int, int);
pub uninterp spec fn instant(d: DateTime<Local>) -> int;
pub uninterp spec fn ordinal0_of(d: DateTime<Local>) -> int;
pub uninterp spec fn week0_of(d: DateTime<Local>) -> int;
pub uninterp spec fn weekday_of(d: DateTime<Local>) -> int;
pub uninterp spec fn local_unique(y: int, mo: int, d: int, h: int, mi: int, s: int) -> bool;
pub uninterp spec fn local_instant(y: int, mo: int, d: int, h: int, mi: int, s: int) -> int;
pub uninterp spec fn dur_secs(d: Duration) -> int;
pub open spec fn scaled(k: int, unit: int) -> int { k * unit }
pub uninterp spec fn isoweek_week0(w: IsoWeek) -> int;
pub uninterp spec fn weekday_num(w: Weekday) -> int;

impl DateTime<Local> {
    #[verifier::external_body] pub fn year(&self) -> (r: i32) ensures r == civil(*self).0, -262143 <= r <= 262142 { unimplemented!() }
    #[verifier::external_body] pub fn month0(&self) -> (r: u32) ensures r == civil(*self).1 - 1, 0 <= r < 12 { unimplemented!() }
    #[verifier::external_body] pub fn month(&self) -> (r: u32) ensures r == civil(*self).1, 1 <= r <= 12 { unimplemented!() }
    #[verifier::external_body] pub fn day(&self) -> (r: u32) ensures r == civil(*self).2, 1 <= r <= 31 { unimplemented!() }
    #[verifier::external_body] pub fn day0(&self) -> (r: u32) ensures r == civil(*self).2 - 1, 0 <= r <= 30 { unimplemented!() }
    #[verifier::external_body] pub fn ordinal0(&self) -> (r: u32) ensures r == ordinal0_of(*self), 0 <= r < 366 { unimplemented!() }
    #[verifier::external_body] pub fn ordinal(&self) -> (r: u32) ensures r == ordinal0_of(*self) + 1, 1 <= r <= 366 { unimplemented!() }
    #[verifier::external_body] pub fn hour(&self) -> (r: u32) ensures r == civil(*self).3, 0 <= r < 24 { unimplemented!() }
    #[verifier::external_body] pub fn minute(&self) -> (r: u32) ensures r == civil(*self).4, 0 <= r < 60 { unimplemented!() }
    #[verifier::external_body] pub fn second(&self) -> (r: u32) ensures r == civil(*self).5, 0 <= r < 60 { unimplemented!() }
    #[verifier::external_body] pub fn iso_week(&self) -> (r: IsoWeek) ensures isoweek_week0(r) == week0_of(*self) { unimplemented!() }
    #[verifier::external_body] pub fn weekday(&self) -> (r: Weekday) ensures weekday_num(r) == weekday_of(*self) { unimplemented!() }
}
impl DateTime<Local> {
    #[verifier::external_body] pub fn checked_add_signed(self, rhs: Duration) -> (r: Option<DateTime<Local>>) ensures r matches Some(d) ==> instant(d) == instant(self) + dur_secs(rhs) { unimplemented!() }
}
impl IsoWeek {
    #[verifier::external_body] pub fn week0(&self) -> (r: u32) ensures r == isoweek_week0(*self), 0 <= r < 53 { unimplemented!() }
    #[verifier::external_body] pub fn week(&self) -> (r: u32) ensures r == isoweek_week0(*self) + 1, 1 <= r <= 53 { unimplemented!() }
}
impl Weekday {
    #[verifier::external_body] pub fn num_days_from_monday(&self) -> (r: u32) ensures r == weekday_num(*self), 0 <= r < 7 { unimplemented!() }
}
impl Local {
    #[verifier::external_body] pub fn now() -> (r: DateTime<Local>) ensures clock_reading(r) { unimplemented!() }
    #[verifier::external_body]
    pub fn with_ymd_and_hms(&self, year: i32, month: u32, day: u32, hour: u32, min: u32, sec: u32) -> (r: LocalResult<DateTime<Local>>)
        ensures (r is Single) == local_unique(year as int, month as int, day as int, hour as int, min as int, sec as int),
                r matches LocalResult::Single(d) ==> civil(d) == (year as int, month as int, day as int, hour as int, min as int, sec as int)
                    && instant(d) == local_instant(year as int, month as int, day as int, hour as int, min as int, sec as int),
    { unimplemented!() }
}
impl<T> LocalResult<T> {
    #[verifier::external_body]
    pub fn unwrap(self) -> (r: T) requires self is Single ensures self == LocalResult::Single(r) { unimplemented!() }
}
// chrono panics outside +-i64::MAX milliseconds: the requires clauses are chrono's documented limits
impl Duration {
    #[verifier::external_body] pub fn weeks(n: i64) -> (r: Duration) requires -15250284452471 <= n <= 15250284452471 ensures dur_secs(r) == scaled(n as int, 604800) { unimplemented!() }
    #[verifier::external_body] pub fn days(n: i64) -> (r: Duration) requires -106751991167300 <= n <= 106751991167300 ensures dur_secs(r) == scaled(n as int, 86400) { unimplemented!() }
    #[verifier::external_body] pub fn hours(n: i64) -> (r: Duration) requires -2562047788015215 <= n <= 2562047788015215 ensures dur_secs(r) == scaled(n as int, 3600) { unimplemented!() }
    #[verifier::external_body] pub fn minutes(n: i64) -> (r: Duration) requires -153722867280912930 <= n <= 153722867280912930 ensures dur_secs(r) == scaled(n as int, 60) { unimplemented!() }
    #[verifier::external_body] pub fn seconds(n: i64) -> (r: Duration) requires -9223372036854775 <= n <= 9223372036854775 ensures dur_secs(r) == scaled(n as int, 1) { unimplemented!() }
}
impl std::ops::Add<Duration> for DateTime<Local> {
    type Output = DateTime<Local>;
    #[verifier::external_body] fn add(self, rhs: Duration) -> (r: DateTime<Local>) ensures instant(r) == instant(self) + dur_secs(rhs) { unimplemented!() }
}
impl std::ops::Sub<Duration> for DateTime<Local> {
    type Output = DateTime<Local>;
    #[verifier::external_body] fn sub(self, rhs: Duration) -> (r: DateTime<Local>) ensures instant(r) == instant(self) - dur_secs(rhs) { unimplemented!() }
}
impl vstd::std_specs::ops::AddSpecImpl<Duration> for DateTime<Local> {
    open spec fn obeys_add_spec() -> bool { false }
    open spec fn add_req(self, rhs: Duration) -> bool { true }
    open spec fn add_spec(self, rhs: Duration) -> DateTime<Local> { arbitrary() }
}
impl vstd::std_specs::ops::SubSpecImpl<Duration> for DateTime<Local> {
    open spec fn obeys_sub_spec() -> bool { false }
    open spec fn sub_req(self, rhs: Duration) -> bool { true }
    open spec fn sub_spec(self, rhs: Duration) -> DateTime<Local> { arbitrary() }
}
