// contract header (assumed): crate `log` — Level, LevelFilter, their cross comparisons, Record::level.
// Conformance of the comparison clauses with the real crate is checked on all 30 (Level, LevelFilter)
// pairs by the Kani harness kani/c02_log_header.rs (complete).
pub mod log {
    use vstd::prelude::*;
    // (same-type `==` is specified by hand below: Verus' `Structural` derive on these two enums makes unit c03_filters die with an
    //  internal error of the verifier, "VerusErasureCtxt has not been initialized")
    #[derive(Copy, Clone)]
    pub enum Level { Error = 1, Warn, Info, Debug, Trace }
    #[derive(Copy, Clone)]
    pub enum LevelFilter { Off, Error, Warn, Info, Debug, Trace }
    impl PartialEq for Level { #[verifier::external_body] fn eq(&self, o: &Level) -> (r: bool) ensures r == (*self == *o) { unimplemented!() } }
    impl Eq for Level {}
    impl PartialEq for LevelFilter { #[verifier::external_body] fn eq(&self, o: &LevelFilter) -> (r: bool) ensures r == (*self == *o) { unimplemented!() } }
    impl Eq for LevelFilter {}
    pub open spec fn lrank(l: Level) -> int { match l { Level::Error => 1, Level::Warn => 2, Level::Info => 3, Level::Debug => 4, Level::Trace => 5 } }
    pub open spec fn frank(l: LevelFilter) -> int { match l { LevelFilter::Off => 0, LevelFilter::Error => 1, LevelFilter::Warn => 2, LevelFilter::Info => 3, LevelFilter::Debug => 4, LevelFilter::Trace => 5 } }
    impl PartialEq<LevelFilter> for Level { #[verifier::external_body] fn eq(&self, o: &LevelFilter) -> (r: bool) ensures r == (lrank(*self) == frank(*o)) { unimplemented!() } }
    impl PartialOrd<LevelFilter> for Level {
        #[verifier::external_body] fn partial_cmp(&self, o: &LevelFilter) -> Option<std::cmp::Ordering> { unimplemented!() }
        #[verifier::external_body] fn gt(&self, o: &LevelFilter) -> (r: bool) ensures r == (lrank(*self) > frank(*o)) { unimplemented!() }
        #[verifier::external_body] fn ge(&self, o: &LevelFilter) -> (r: bool) ensures r == (lrank(*self) >= frank(*o)) { unimplemented!() }
        #[verifier::external_body] fn lt(&self, o: &LevelFilter) -> (r: bool) ensures r == (lrank(*self) < frank(*o)) { unimplemented!() }
        #[verifier::external_body] fn le(&self, o: &LevelFilter) -> (r: bool) ensures r == (lrank(*self) <= frank(*o)) { unimplemented!() }
    }
    impl PartialEq<Level> for LevelFilter { #[verifier::external_body] fn eq(&self, o: &Level) -> (r: bool) ensures r == (lrank(*o) == frank(*self)) { unimplemented!() } }
    impl PartialOrd<Level> for LevelFilter {
        #[verifier::external_body] fn partial_cmp(&self, o: &Level) -> Option<std::cmp::Ordering> { unimplemented!() }
        #[verifier::external_body] fn ge(&self, o: &Level) -> (r: bool) ensures r == (frank(*self) >= lrank(*o)) { unimplemented!() }
        #[verifier::external_body] fn gt(&self, o: &Level) -> (r: bool) ensures r == (frank(*self) > lrank(*o)) { unimplemented!() }
        #[verifier::external_body] fn le(&self, o: &Level) -> (r: bool) ensures r == (frank(*self) <= lrank(*o)) { unimplemented!() }
        #[verifier::external_body] fn lt(&self, o: &Level) -> (r: bool) ensures r == (frank(*self) < lrank(*o)) { unimplemented!() }
    }
    // same-type comparisons (derived Ord in the real crate: declaration order = rank)
    impl PartialOrd for LevelFilter {
        #[verifier::external_body] fn partial_cmp(&self, o: &LevelFilter) -> Option<std::cmp::Ordering> { unimplemented!() }
        #[verifier::external_body] fn gt(&self, o: &LevelFilter) -> (r: bool) ensures r == (frank(*self) > frank(*o)) { unimplemented!() }
        #[verifier::external_body] fn ge(&self, o: &LevelFilter) -> (r: bool) ensures r == (frank(*self) >= frank(*o)) { unimplemented!() }
        #[verifier::external_body] fn lt(&self, o: &LevelFilter) -> (r: bool) ensures r == (frank(*self) < frank(*o)) { unimplemented!() }
        #[verifier::external_body] fn le(&self, o: &LevelFilter) -> (r: bool) ensures r == (frank(*self) <= frank(*o)) { unimplemented!() }
    }
    impl PartialOrd for Level {
        #[verifier::external_body] fn partial_cmp(&self, o: &Level) -> Option<std::cmp::Ordering> { unimplemented!() }
        #[verifier::external_body] fn gt(&self, o: &Level) -> (r: bool) ensures r == (lrank(*self) > lrank(*o)) { unimplemented!() }
        #[verifier::external_body] fn ge(&self, o: &Level) -> (r: bool) ensures r == (lrank(*self) >= lrank(*o)) { unimplemented!() }
        #[verifier::external_body] fn lt(&self, o: &Level) -> (r: bool) ensures r == (lrank(*self) < lrank(*o)) { unimplemented!() }
        #[verifier::external_body] fn le(&self, o: &Level) -> (r: bool) ensures r == (lrank(*self) <= lrank(*o)) { unimplemented!() }
    }
    #[verifier::external_body]
    pub struct Record<'a> { _p: std::marker::PhantomData<&'a ()> }
    pub uninterp spec fn record_level(r: &Record) -> Level;
    impl<'a> Record<'a> {
        #[verifier::external_body] pub fn level(&self) -> (r: Level) ensures r == record_level(self) { unimplemented!() }
    }
    #[verifier::external_body]
    pub struct Metadata<'a> { _p: std::marker::PhantomData<&'a ()> }
    pub uninterp spec fn metadata_level(m: &Metadata) -> Level;
    pub uninterp spec fn metadata_target<'a>(m: &Metadata<'a>) -> &'a str;
    impl<'a> Metadata<'a> {
        #[verifier::external_body] pub fn level(&self) -> (r: Level) ensures r == metadata_level(self) { unimplemented!() }
        #[verifier::external_body] pub fn target(&self) -> (r: &'a str) ensures r == metadata_target(self) { unimplemented!() }
    }
    // ---- the facade's global state, as far as C02 needs it ----
    // "level l has been installed as the global maximum (during the current call)"
    pub uninterp spec fn installed(l: LevelFilter) -> bool;
    #[verifier::external_body] pub struct SetLoggerError { _p: () }
    #[verifier::external_body] pub fn set_max_level(level: LevelFilter) ensures installed(level) { unimplemented!() }
    #[verifier::external_body] pub fn max_level() -> LevelFilter { unimplemented!() }
    // real signature: set_boxed_logger(Box<dyn Log>); the header is generic over the concrete logger so that the unit can
    // state, as `ready_for_facade`, what must hold when a logger is handed to the facade
    pub trait FacadeLogger { spec fn ready_for_facade(&self) -> bool; }
    #[verifier::external_body] pub fn set_boxed_logger<L: FacadeLogger>(logger: Box<L>) -> (r: Result<(), SetLoggerError>)
        requires logger.ready_for_facade()
    { unimplemented!() }
}
