//@file src/append/rolling_file/policy/compound/trigger/onstartup.rs
//@harness c17_onstartup_sequence unwind=4 strength=complete bound="all (min_size, len1, len2, len3) in u64^4: three consecutive consultations (full domain), loop-free" timeout=600
// Statement: at most one rotation, only while handling the first record after start-up and only if the file that
// existed at that moment is at least min_size bytes. Later consultations see other (grown) sizes: they must not fire.
#[cfg(any(kani, verif_replay))]
#[allow(dead_code, unused)]
mod __verif_c17 {
    use super::*;
    use crate::__verif_rt::*;
    use crate::{__verif_ob, __verif_cover};
    use std::path::Path;
    pub(crate) fn body(src: &mut Src) {
        let min = src.u64();
        let l1 = src.u64(); let l2 = src.u64(); let l3 = src.u64();
        let t = OnStartUpTrigger::new(min);
        let mut w = None;
        let r1 = { let lf = LogFile { writer: &mut w, path: Path::new("x"), len: l1 }; t.trigger(&lf) };
        let r2 = { let lf = LogFile { writer: &mut w, path: Path::new("x"), len: l2 }; t.trigger(&lf) };
        let r3 = { let lf = LogFile { writer: &mut w, path: Path::new("x"), len: l3 }; t.trigger(&lf) };
        __verif_cover!("small start-up file that later grows past min_size", l1 < min && l2 >= min);
        __verif_cover!("start-up file exactly min_size", l1 == min);
        __verif_ob!("trigger#post first consultation fires iff the start-up file is at least min_size", matches!(r1, Ok(b) if b == (l1 >= min)));
        __verif_ob!("trigger#post second consultation never fires", matches!(r2, Ok(false)));
        __verif_ob!("trigger#post third consultation never fires", matches!(r3, Ok(false)));
        __verif_ob!("is_pre_process#post rolls before the record is written", t.is_pre_process());
        std::mem::forget(r1); std::mem::forget(r2); std::mem::forget(r3);
    }
    #[cfg(kani)]
    #[kani::proof]
    #[kani::unwind(4)]
    fn c17_onstartup_sequence() { let mut src = Src::new(); body(&mut src); }
}
