"""Per-property configuration of the checks: which woven Verus units and which Kani harness files decide it."""

TRUSTED_BASE = [
    'Verus 0.2026.09.13 + Z3 (SMT encoding, vstd specifications of Vec/slice/HashMap/HashSet/Chars/Option/Result)',
    'Kani 0.68 / CBMC 6.11 / CaDiCaL (bit-precise model of the compiled MIR of the real crate)',
    'rustc front ends of both tools; the mechanical extractor tools/vx.py + tools/rsitems.py (copies item text byte for byte; drops attributes, doc comments, visibility)',
    'contract headers under /verif/headers and the `external_body` declarations inside /verif/specs/*.vrs (assumed specifications of std / log / chrono / anyhow APIs)',
    'termination is not claimed (exec_allows_no_decreases_clause where recursion goes through HashMap values); Kani does not check termination',
]

VERUS_RLIMIT = {}

PROPS = {
    'C13': {
        'level': 'proof',
        'verus': ['c13_check_logger_name'],
        'kani': ['c13_check_logger_name'],
        'twins': {'check_logger_name': 'c13_check_logger_name_twin'},
        'explanation': 'check_logger_name is extracted verbatim from src/config/runtime.rs on every run and verified by Verus against the '
                       'well-formedness predicate of the statement for strings of every length; a Kani twin (names <= 5 chars over {a,:}) '
                       'supplies counterexamples which are replayed natively on the real function.',
        'unverified': ['SharedLogger::new_with_err_handler (appender_map indexing; see C01)'],
        'assumptions': [],
    },
}

# properties that DESIGN.md claims but whose check is not built yet in this commit
PENDING = {p: 'check under construction in this commit (planned, see DESIGN.md section 5); not claimed until it runs' for p in
           ['C02', 'C03', 'C06', 'C07', 'C08', 'C10', 'C11', 'C16', 'C17', 'C18', 'C20']}
