//@file src/append/rolling_file/policy/compound/trigger/time.rs
//@harness c20_interval_u64 strength=complete bound="every u64 given as an integer scalar (full domain), loop-free" timeout=600 body=body_u64
//@harness c20_interval_i64 strength=complete bound="every i64 given as an integer scalar (full domain), loop-free" timeout=600 body=body_i64
//@harness c20_interval_units unwind=14 strength=bounded bound="<1-2 digits><0-1 space><one of the 14 unit names, each letter in either case><optional extra character from {s, S, x, space}>" timeout=3000 body=body_units
//@harness c20_interval_year_limit unwind=12 strength=bounded bound="all 6-digit numbers followed by ' years' (the 100000-year limit has 6 digits)" timeout=3000 body=body_year_limit tier=thorough
//@harness c20_interval_ascii4 unwind=7 strength=bounded bound="every ASCII string of <= 4 bytes" timeout=1500 body=body_ascii4
#[cfg(any(kani, verif_replay))]
#[allow(dead_code, unused)]
mod __verif_c20_int {
    use super::*;
    use crate::__verif_rt::*;
    use crate::{__verif_ob, __verif_cover};
    use serde::de::value::{StrDeserializer, U64Deserializer, I64Deserializer};
    use serde::de::IntoDeserializer;
    use serde::Deserialize;
    pub(crate) struct E;
    impl std::fmt::Debug for E { fn fmt(&self, _f: &mut std::fmt::Formatter) -> std::fmt::Result { Ok(()) } }
    impl std::fmt::Display for E { fn fmt(&self, _f: &mut std::fmt::Formatter) -> std::fmt::Result { Ok(()) } }
    impl std::error::Error for E {}
    impl serde::de::Error for E { fn custom<T: std::fmt::Display>(_m: T) -> Self { E } }

    // the largest multiplier per unit for which the trigger's date arithmetic is defined (100 000 years; precondition of
    // TimeTrigger::get_next_time, Verus unit c16_get_next_time): a literal beyond it "would overflow" and must be rejected
    fn limit(kind: u8) -> i64 { let y: i64 = 100_000; match kind { 0 => y * 366 * 24 * 60 * 60, 1 => y * 366 * 24 * 60, 2 => y * 366 * 24, 3 => y * 366, 4 => y * 53, 5 => y * 12, _ => y } }
    fn same(r: &Result<TimeTriggerInterval, E>, kind: u8, n: i64) -> bool {
        match r {
            Ok(TimeTriggerInterval::Second(x)) => kind == 0 && *x == n,
            Ok(TimeTriggerInterval::Minute(x)) => kind == 1 && *x == n,
            Ok(TimeTriggerInterval::Hour(x)) => kind == 2 && *x == n,
            Ok(TimeTriggerInterval::Day(x)) => kind == 3 && *x == n,
            Ok(TimeTriggerInterval::Week(x)) => kind == 4 && *x == n,
            Ok(TimeTriggerInterval::Month(x)) => kind == 5 && *x == n,
            Ok(TimeTriggerInterval::Year(x)) => kind == 6 && *x == n,
            Err(_) => false,
        }
    }
    pub(crate) fn body_u64(src: &mut Src) {
        let v = src.u64();
        let d: U64Deserializer<E> = v.into_deserializer();
        let r = TimeTriggerInterval::deserialize(d);
        __verif_cover!("integer scalar above i64::MAX", v > i64::MAX as u64);
        __verif_cover!("integer scalar above the 100000-year limit", v > limit(0) as u64 && v <= i64::MAX as u64);
        if v <= limit(0) as u64 { __verif_ob!("visit_u64#post a bare number means seconds", same(&r, 0, v as i64)); }
        else { __verif_ob!("visit_u64#post a value whose use would overflow is rejected, never wrapped", r.is_err()); }
    }
    pub(crate) fn body_i64(src: &mut Src) {
        let v = src.i64();
        let d: I64Deserializer<E> = v.into_deserializer();
        let r = TimeTriggerInterval::deserialize(d);
        if v < 0 { __verif_ob!("visit_i64#post negative numbers are rejected", r.is_err()); }
        else if v <= limit(0) { __verif_ob!("visit_i64#post a bare number means seconds", same(&r, 0, v)); }
        else { __verif_ob!("visit_i64#post a value whose use would overflow is rejected", r.is_err()); }
    }
    const NAMES: [&[u8]; 7] = [b"second", b"minute", b"hour", b"day", b"week", b"month", b"year"];
    pub(crate) fn body_units(src: &mut Src) {
        let mut bytes = [0u8; 16]; let mut len = 0usize;
        let nd = src.u8(); assume(nd >= 1 && nd <= 2);
        let d0 = src.u8(); let d1 = src.u8(); assume(d0 < 10 && d1 < 10);
        bytes[0] = b'0' + d0; len = 1; let mut num = d0 as i64;
        if nd == 2 { bytes[1] = b'0' + d1; len = 2; num = num * 10 + d1 as i64; }
        if src.bool() { bytes[len] = b' '; len += 1; }
        let kind = src.u8(); assume(kind < 7);
        let plural = src.bool();
        let name = NAMES[kind as usize];
        let mut i = 0;
        while i < 6 { let up = src.bool(); if i < name.len() { bytes[len] = if up { name[i] - 32 } else { name[i] }; len += 1; } i += 1; }
        if plural { bytes[len] = if src.bool() { b'S' } else { b's' }; len += 1; }
        let extra = src.u8(); assume(extra <= 4);
        match extra { 1 => { bytes[len] = b's'; len += 1; } 2 => { bytes[len] = b'S'; len += 1; } 3 => { bytes[len] = b'x'; len += 1; } 4 => { bytes[len] = b' '; len += 1; } _ => {} }
        let s = unsafe { std::str::from_utf8_unchecked(&bytes[..len]) };
        let d: StrDeserializer<E> = s.into_deserializer();
        let r = TimeTriggerInterval::deserialize(d);
        // statement: the named unit, singular or plural, any case; trailing whitespace is trimmed; anything else is an unknown unit
        let valid = extra == 0 || extra == 4 || (!plural && (extra == 1 || extra == 2));
        __verif_cover!("plural unit followed by one more s", plural && extra == 1);
        __verif_cover!("mixed-case singular unit", !plural && extra == 0 && kind == 2);
        if valid { __verif_ob!("visit_str#post number x named unit, singular or plural, case-insensitive", same(&r, kind, num)); }
        else { __verif_ob!("visit_str#post unknown units are rejected", r.is_err()); }
    }
    pub(crate) fn body_year_limit(src: &mut Src) {
        let mut bytes = [0u8; 12]; let mut num: i64 = 0;
        let mut i = 0;
        while i < 6 { let d = src.u8(); assume(d < 10); bytes[i] = b'0' + d; num = num * 10 + d as i64; i += 1; }
        let u = b" years"; let mut j = 0; while j < 6 { bytes[6 + j] = u[j]; j += 1; }
        let s = unsafe { std::str::from_utf8_unchecked(&bytes[..12]) };
        let d: StrDeserializer<E> = s.into_deserializer();
        let r = TimeTriggerInterval::deserialize(d);
        __verif_cover!("just above the limit", num == 100001);
        if num <= limit(6) { __verif_ob!("visit_str#post an interval within the limit parses to number x unit", same(&r, 6, num)); }
        else { __verif_ob!("visit_str#post an interval whose use would overflow is rejected", r.is_err()); }
    }
    pub(crate) fn body_ascii4(src: &mut Src) {
        let n = src.u8() as usize; assume(n <= 4);
        let bytes = [src.u8(), src.u8(), src.u8(), src.u8()];
        assume(bytes[0] < 128 && bytes[1] < 128 && bytes[2] < 128 && bytes[3] < 128);
        let s = unsafe { std::str::from_utf8_unchecked(&bytes[..n]) };
        let d: StrDeserializer<E> = s.into_deserializer();
        let r = TimeTriggerInterval::deserialize(d);
        // strings of <= 4 bytes: a bare number means seconds; "<d>day" / "<d> day" are the only unit forms that fit; everything else is rejected
        let mut i = 0; let mut num: i64 = 0;
        while i < n && bytes[i] >= b'0' && bytes[i] <= b'9' { num = num * 10 + (bytes[i] - b'0') as i64; i += 1; }
        let lower = |b: u8| if b >= b'A' && b <= b'Z' { b + 32 } else { b };
        if i == 0 { __verif_ob!("visit_str#post no leading number => rejected (signs, fractions, junk)", r.is_err()); }
        else if i == n { __verif_ob!("visit_str#post a bare number means seconds", same(&r, 0, num)); }
        else if n == 4 && i == 1 && lower(bytes[1]) == b'd' && lower(bytes[2]) == b'a' && lower(bytes[3]) == b'y' { __verif_ob!("visit_str#post <n>day", same(&r, 3, num)); }
        else { __verif_ob!("visit_str#post junk after the number is rejected", r.is_err()); }
    }
    #[cfg(kani)] #[kani::proof] fn c20_interval_u64() { let mut s = Src::new(); body_u64(&mut s); }
    #[cfg(kani)] #[kani::proof] fn c20_interval_i64() { let mut s = Src::new(); body_i64(&mut s); }
    #[cfg(kani)] #[kani::proof] #[kani::unwind(14)] fn c20_interval_units() { let mut s = Src::new(); body_units(&mut s); }
    #[cfg(kani)] #[kani::proof] #[kani::unwind(12)] fn c20_interval_year_limit() { let mut s = Src::new(); body_year_limit(&mut s); }
    #[cfg(kani)] #[kani::proof] #[kani::unwind(7)] fn c20_interval_ascii4() { let mut s = Src::new(); body_ascii4(&mut s); }
}
