#!/bin/bash
# Native replay of known finding C18/D6 on the real crate (scratch copy of /repo, removed afterwards):
# a tty_only console appender is silent on a terminal when colour is disabled and writes to a pipe when colour is forced.
set -u
S=${VERIF_SCRATCH:-/tmp/verif-scratch}/replay-d6
rm -rf $S; mkdir -p $S; rsync -a --exclude target --exclude .git ${VERIF_REPO:-/repo}/ $S/crate/
cat > $S/crate/examples/tty_probe.rs <<'RS'
use log::LevelFilter;
use log4rs::{append::console::ConsoleAppender, config::{Appender, Config, Root}, encode::pattern::PatternEncoder};
fn main() {
    let a = ConsoleAppender::builder().tty_only(true).encoder(Box::new(PatternEncoder::new("PROBE-{m}{n}"))).build();
    let cfg = Config::builder().appender(Appender::builder().build("c", Box::new(a))).build(Root::builder().appender("c").build(LevelFilter::Info)).unwrap();
    log4rs::init_config(cfg).unwrap();
    log::info!("line");
}
RS
export CARGO_TARGET_DIR=${VERIF_CACHE:-$HOME/.cache/log4rs-verif}/native-target CARGO_NET_OFFLINE=true
(cd $S/crate && RUSTFLAGS=-Awarnings cargo build --offline --example tty_probe >/dev/null 2>&1) || { echo BUILD-FAILED; exit 2; }
EXE=$CARGO_TARGET_DIR/debug/examples/tty_probe python3 - <<'PY'
import os, pty, subprocess
exe = os.environ['EXE']
def env(e):
    d = dict(os.environ)
    for k in ('NO_COLOR', 'CLICOLOR', 'CLICOLOR_FORCE'): d.pop(k, None)
    d.update(e); return d
def run_pty(e):
    pid, fd = pty.fork()
    if pid == 0: os.execve(exe, [exe], env(e))
    out = b''
    while True:
        try:
            d = os.read(fd, 4096)
            if not d: break
            out += d
        except OSError: break
    os.waitpid(pid, 0); return out
def run_pipe(e): return subprocess.run([exe], env=env(e), capture_output=True).stdout
bad = 0
for e in ({}, {'NO_COLOR': '1'}, {'CLICOLOR': '0'}, {'CLICOLOR_FORCE': '1'}):
    t = b'PROBE-line' in run_pty(e); p = b'PROBE-line' in run_pipe(e)
    ok = (t is True) and (p is False)
    bad += 0 if ok else 1
    print('env=%-22s terminal: %-7s pipe: %-7s %s' % (e, 'writes' if t else 'silent', 'writes' if p else 'silent', 'as the property requires' if ok else 'VIOLATES tty_only'))
print('violating environments:', bad)
PY
rm -rf $S
