#!/usr/bin/env python3
"""kx.py — weave Kani harness modules into a scratch copy of the *real* crate and run them.

A harness file /verif/kani/<unit>.rs starts with directives:
  //@file <relpath>                       source file of the crate the module is appended to (it owns the private items)
  //@harness <name> [unwind=N] [strength=complete|bounded] [bound="..."] [tier=quick|thorough] [timeout=SECONDS] [stubs=yes]
  //@extract-closure <relpath> :: <static item> as <fn name> -> <ret type>    (rule E8)
The rest is Rust, appended verbatim. /verif/kani/_rt.rs (value source + obligation macros) is appended to src/lib.rs.

Nothing is written to /repo. The scratch copy lives outside /repo and /verif and is removed by the caller.
"""
import json
import os
import re
import shutil
import subprocess
import sys
import time

sys.path.insert(0, os.path.dirname(os.path.abspath(__file__)))
import rsitems as rs  # noqa: E402

VERIF = os.path.dirname(os.path.dirname(os.path.abspath(__file__)))
REPO = os.environ.get('VERIF_REPO', '/repo')
SCRATCH = os.environ.get('VERIF_SCRATCH', '/tmp/verif-scratch')
CACHE = os.environ.get('VERIF_CACHE', os.path.expanduser('~/.cache/log4rs-verif'))


class AnchorLost(Exception):
    pass


def parse_harness_file(path):
    txt = open(path).read()
    meta = {'file': None, 'harnesses': [], 'closures': [], 'path': path, 'text': txt}
    for ln in txt.split('\n'):
        s = ln.strip()
        if s.startswith('//@file '):
            meta['file'] = s.split(None, 1)[1].strip()
        elif s.startswith('//@harness '):
            rest = s[len('//@harness '):]
            name = rest.split()[0]
            h = {'name': name, 'strength': 'bounded', 'tier': 'quick', 'timeout': 900, 'unit': os.path.splitext(os.path.basename(path))[0]}
            for mm in re.finditer(r'(\w+)=("([^"]*)"|\S+)', rest):
                v = mm.group(3) if mm.group(3) is not None else mm.group(2)
                h[mm.group(1)] = v
            h['timeout'] = int(h['timeout'])
            meta['harnesses'].append(h)
        elif s.startswith('//@extract-closure '):
            mm = re.match(r'//@extract-closure (\S+) :: (.+?) as (\w+) -> (.+)$', s)
            meta['closures'].append({'file': mm.group(1), 'item': mm.group(2), 'fn': mm.group(3), 'ret': mm.group(4)})
    return meta


def extract_closure_body(repo, c):
    """E8: body of the closure in `static X: Lazy<_> = Lazy::new(|| { BODY });` emitted as `fn name() -> T { BODY }`"""
    p = os.path.join(repo, c['file'])
    s = open(p).read()
    m = rs.mask(s)
    try:
        it = rs.find_item(s, [c['item']], m)
    except rs.ScanError as e:
        raise AnchorLost(str(e))
    seg = m[it.start:it.end]
    k = seg.find('||')
    if k < 0:
        raise AnchorLost('no closure in %s' % c['item'])
    b = seg.find('{', k)
    close = rs.match_close(m, it.start + b)
    body = s[it.start + b + 1:close]
    return 'pub(crate) fn %s() -> %s {%s}\n' % (c['fn'], c['ret'], body), rs._norm(body)


def prepare_crate(tag, units, repo=REPO):
    """copy the working tree of /repo (not its .git / target) to scratch and append harness modules"""
    dst = os.path.join(SCRATCH, tag, 'crate')
    if os.path.exists(os.path.join(SCRATCH, tag)):
        shutil.rmtree(os.path.join(SCRATCH, tag), ignore_errors=True)
    os.makedirs(dst)
    subprocess.run(['rsync', '-a', '--exclude', 'target', '--exclude', '.git', repo.rstrip('/') + '/', dst + '/'], check=True)
    # _rt into lib.rs
    with open(os.path.join(dst, 'src/lib.rs'), 'a') as f:
        f.write('\n' + open(os.path.join(VERIF, 'kani/_rt.rs')).read())
    woven = []
    for u in units:
        meta = parse_harness_file(os.path.join(VERIF, 'kani', u + '.rs'))
        tgt = os.path.join(dst, meta['file'])
        if not os.path.exists(tgt):
            raise AnchorLost('file missing: %s' % meta['file'])
        extra = ''
        for c in meta['closures']:
            t, _ = extract_closure_body(repo, c)
            extra += '#[cfg(any(kani, verif_replay))]\n#[allow(dead_code)]\n' + t
        with open(tgt, 'a') as f:
            f.write('\n' + extra + meta['text'])
        woven.append(meta)
    # cargo config: offline
    os.makedirs(os.path.join(dst, '.cargo'), exist_ok=True)
    with open(os.path.join(dst, '.cargo/config.toml'), 'w') as f:
        f.write('[net]\noffline = true\n')
    return dst, woven


_CHECK_RE = re.compile(r'^Check (\d+): (.+?)\s*$')


def parse_kani_output(out):
    """returns dict harness -> {checks, failed:[...], covers:{sat,unsat}, status, time}"""
    res = {}
    cur = None
    chk = None
    lines = out.split('\n')
    for i, ln in enumerate(lines):
        mm = re.match(r'^Checking harness (\S+?)\.\.\.', ln)
        if mm:
            cur = {'checks': 0, 'failed': [], 'undetermined': [], 'covers_sat': [], 'covers_unsat': [], 'status': None, 'time_s': None,
                   'unsupported': [], 'playback': None, 'unwind_fail': False}
            res[mm.group(1)] = cur
            chk = None
            continue
        if cur is None:
            continue
        mm = _CHECK_RE.match(ln)
        if mm:
            chk = {'n': int(mm.group(1)), 'id': mm.group(2)}
            cur['checks'] += 1
            continue
        s = ln.strip()
        if chk is not None:
            if s.startswith('- Status:'):
                chk['status'] = s.split(':', 1)[1].strip()
            elif s.startswith('- Description:'):
                chk['desc'] = s.split(':', 1)[1].strip().strip('"')
            elif s.startswith('- Location:'):
                chk['loc'] = s.split(':', 1)[1].strip()
                st = chk.get('status', '')
                if st == 'FAILURE':
                    cur['failed'].append(chk)
                    if 'unwinding assertion' in chk.get('desc', ''):
                        cur['unwind_fail'] = True
                elif st in ('UNDETERMINED', 'UNREACHABLE') and st == 'UNDETERMINED':
                    cur['undetermined'].append(chk)
                elif st == 'SATISFIED':
                    cur['covers_sat'].append(chk.get('desc'))
                elif st in ('UNSATISFIABLE',):
                    cur['covers_unsat'].append(chk.get('desc'))
                chk = None
        mm = re.match(r'^VERIFICATION:- (\w+)', s)
        if mm:
            cur['status'] = mm.group(1)
        mm = re.match(r'^Verification Time: ([\d.]+)s', s)
        if mm:
            cur['time_s'] = float(mm.group(1))
    return res


def parse_playback(out):
    """concrete values printed by --concrete-playback=print: list of {kind, desc, vals}; vals = byte vectors in
    kani::any() order. One block per failed assertion and per satisfied cover."""
    res = []
    cur = None
    inside = False
    for ln in out.split('\n'):
        mm = re.match(r'^/// Check for `(\w+)`: "?(.*?)"?\s*$', ln)
        if mm:
            cur = {'kind': mm.group(1), 'desc': mm.group(2).strip('"'), 'vals': []}
            continue
        if cur is None:
            continue
        if 'let concrete_vals: Vec<Vec<u8>> = vec![' in ln:
            inside = True
            continue
        if inside:
            mm = re.match(r'^\s*vec!\[([\d,\s]*)\],?\s*$', ln)
            if mm:
                inner = mm.group(1).strip()
                cur['vals'].append([int(x) for x in inner.split(',') if x.strip()] if inner else [])
            elif re.match(r'^\s*\];', ln):
                inside = False
                res.append(cur)
                cur = None
    return res


def kani_target_dir():
    d = os.path.join(CACHE, 'kani-target')
    os.makedirs(d, exist_ok=True)
    return d


def native_target_dir():
    d = os.path.join(CACHE, 'native-target')
    os.makedirs(d, exist_ok=True)
    return d


def run_kani(crate, harness, timeout=900, playback=False, extra=None, target_dir=None):
    cmd = ['cargo', 'kani', '-Z', 'function-contracts', '-Z', 'stubbing', '-Z', 'restrict-vtable', '--harness', harness['name'], '--exact'] if False else \
          ['cargo', 'kani', '-Z', 'function-contracts', '-Z', 'stubbing', '-Z', 'restrict-vtable', '--harness', harness['name']]
    if playback:
        cmd += ['-Z', 'concrete-playback', '--concrete-playback=print']
    if extra:
        cmd += extra
    cmd += ['--target-dir', target_dir or kani_target_dir()]
    env = dict(os.environ)
    env['CARGO_NET_OFFLINE'] = 'true'
    t0 = time.time()
    try:
        p = subprocess.Popen(cmd, cwd=crate, env=env, stdout=subprocess.PIPE, stderr=subprocess.STDOUT, text=True, start_new_session=True)
        try:
            out, _ = p.communicate(timeout=timeout)
        except subprocess.TimeoutExpired:
            import signal
            try:
                os.killpg(p.pid, signal.SIGKILL)
            except Exception:
                pass
            out, _ = p.communicate()
            return {'timeout': True, 'rc': -1, 'out': out or '', 'wall_s': time.time() - t0, 'cmd': ' '.join(cmd)}
    except Exception as e:  # pragma: no cover
        return {'timeout': False, 'rc': -2, 'out': str(e), 'wall_s': time.time() - t0, 'cmd': ' '.join(cmd)}
    return {'timeout': False, 'rc': p.returncode, 'out': out, 'wall_s': time.time() - t0, 'cmd': ' '.join(cmd)}


def native_replay(crate, relfile, unit_mod, vals, target_dir=None, timeout=900, body='body'):
    """append a #[test] next to the harness module that runs the harness body on the verifier's concrete values,
    and run it natively against the same scratch copy of the real crate (cfg verif_replay)."""
    test = '\n#[cfg(all(test, verif_replay))]\nmod __verif_replay_test_%d {\n    #[test]\n    fn verif_replay() {\n' \
           '        let mut src = crate::__verif_rt::Src::from(vec![%s]);\n        super::%s::%s(&mut src);\n    }\n}\n' % (
               int(time.time() * 1000) % 100000000, ', '.join('vec![%s]' % ', '.join(str(b) for b in v) for v in vals), unit_mod, body)
    with open(os.path.join(crate, relfile), 'a') as f:
        f.write(test)
    env = dict(os.environ)
    env['CARGO_NET_OFFLINE'] = 'true'
    env['RUSTFLAGS'] = (env.get('RUSTFLAGS', '') + ' --cfg verif_replay -Awarnings').strip()
    env['CARGO_TARGET_DIR'] = target_dir or (native_target_dir() + os.environ.get('VERIF_TAG', ''))
    cmd = ['cargo', 'test', '--offline', '--lib', 'verif_replay', '--', '--nocapture', '--test-threads', '1']
    t0 = time.time()
    try:
        p = subprocess.run(cmd, cwd=crate, env=env, capture_output=True, text=True, timeout=timeout)
        out = p.stdout + p.stderr
        rc = p.returncode
    except subprocess.TimeoutExpired:
        out, rc = 'timeout', -1
    ran = 'running 1 test' in out
    failed = ran and ('VERIF-OBLIGATION-FAILED' in out or 'panicked at' in out) and 'VERIF-REPLAY-ASSUMPTION-VIOLATED' not in out
    return {'cmd': 'RUSTFLAGS="--cfg verif_replay" ' + ' '.join(cmd), 'rc': rc, 'ran': ran, 'reproduced': bool(failed and rc != 0),
            'output_tail': out[-2500:], 'wall_s': time.time() - t0}


if __name__ == '__main__':
    import argparse
    ap = argparse.ArgumentParser()
    ap.add_argument('unit', nargs='+')
    ap.add_argument('--harness')
    ap.add_argument('--playback', action='store_true')
    ap.add_argument('--keep', action='store_true')
    ap.add_argument('--timeout', type=int, default=900)
    a = ap.parse_args()
    crate, woven = prepare_crate('manual-' + a.unit[0], a.unit)
    for meta in woven:
        for h in meta['harnesses']:
            if a.harness and a.harness != h['name']:
                continue
            r = run_kani(crate, h, timeout=a.timeout, playback=a.playback)
            pr = parse_kani_output(r['out'])
            print(h['name'], 'rc', r['rc'], 'timeout', r['timeout'], 'wall', round(r['wall_s'], 1))
            for k, v in pr.items():
                print(' ', k, v['status'], 'checks', v['checks'], 'failed', [(c.get('desc'), c.get('loc')) for c in v['failed']][:5], 'covers', v['covers_sat'], v['covers_unsat'])
            if not pr:
                print(r['out'][-3000:])
            if a.playback:
                print('playback', parse_playback(r['out']))
    if not a.keep:
        shutil.rmtree(os.path.dirname(crate), ignore_errors=True)
