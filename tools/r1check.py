#!/usr/bin/env python3
"""Translation check of rule R1 (for-desugaring) for ConfigBuilder::build_lossy: the desugared text that Verus verifies
(ghost-free) is compiled natively next to the original in a scratch copy of the real crate and both are run on an
enumerated set of builder inputs; any disagreement means the weaver, not /repo, is wrong (exit 2 in ./check)."""
import os, re, shutil, subprocess, sys, json
V = os.path.dirname(os.path.dirname(os.path.abspath(__file__)))
sys.path.insert(0, os.path.join(V, 'tools'))
import vx, kx

def desugared_fn(repo):
    w = vx.Weaver(os.path.join(V, 'specs', 'c13_build_lossy.vrs'), repo=repo, ghost_free=True)
    w.weave()
    # keep only the segments that belong to build_lossy
    txt = ''.join(sg.text for sg in w.segs if sg.origin.get('fn') == 'build_lossy')
    txt = re.sub(r'\(res: \((Config, ConfigErrors)\)\)', r'(\1)', txt)      # un-name the return value
    txt = txt.replace('fn build_lossy', 'fn build_lossy__r1', 1)
    return txt, [r for r in w.rules if r['rule'].startswith('R1')]

TEST = r'''
#[cfg(test)]
mod __verif_r1check {
    use super::*;
    #[derive(Debug)] struct A;
    impl Append for A { fn append(&self, _r: &log::Record) -> anyhow::Result<()> { Ok(()) } fn flush(&self) {} }
    fn mk(apps: &[&str], root: &[&str], loggers: &[(&str, &[&str])]) -> (ConfigBuilder, Root) {
        let mut b = Config::builder();
        for a in apps { b = b.appender(Appender::builder().build(*a, Box::new(A))); }
        for (n, refs) in loggers { b = b.logger(Logger::builder().appenders(refs.iter().cloned()).build(*n, LevelFilter::Info)); }
        (b, Root::builder().appenders(root.iter().cloned()).build(LevelFilter::Warn))
    }
    fn show(r: (Config, ConfigErrors)) -> String {
        let (c, e) = r;
        format!("{:?}|{:?}|{:?}|{:?}", c.appenders().iter().map(|a| a.name().to_owned()).collect::<Vec<_>>(), c.root().appenders(), c.loggers(), e.errors())
    }
    #[test]
    fn verif_r1check() {
        let names = ["a", "b", "a"];
        let lnames = ["x", "x::y", "x:", "", "x"];
        let refsets: [&[&str]; 4] = [&[], &["a"], &["c", "a"], &["b", "b"]];
        let mut n = 0usize;
        for na in 0..=3 { for r in 0..4 { for nl in 0..=2 { for l0 in 0..5 { for l1 in 0..5 { for lr in 0..4 {
            if nl < 2 && l1 > 0 { continue; }
            if nl < 1 && (l0 > 0 || lr > 0) { continue; }
            let apps = &names[..na];
            let mut ls: Vec<(&str, &[&str])> = vec![];
            if nl >= 1 { ls.push((lnames[l0], refsets[lr])); }
            if nl >= 2 { ls.push((lnames[l1], refsets[(lr + 1) % 4])); }
            let (b1, r1) = mk(apps, refsets[r], &ls);
            let (b2, r2) = mk(apps, refsets[r], &ls);
            let x = show(b1.build_lossy(r1));
            let y = show(b2.build_lossy__r1(r2));
            assert_eq!(x, y, "R1 disagreement on apps={:?} root={:?} loggers={:?}", apps, refsets[r], ls);
            n += 1;
        } } } } } }
        println!("VERIF-R1CHECK inputs={}", n);
    }
}
'''

def run(repo='/repo', tag='r1'):
    fn, rules = desugared_fn(repo)
    crate, _ = kx.prepare_crate('r1check-' + tag, [], repo=repo)
    with open(os.path.join(crate, 'src/config/runtime.rs'), 'a') as f:
        f.write('\n#[cfg(test)]\nimpl ConfigBuilder {\n' + fn + '\n}\n' + TEST)
    env = dict(os.environ, CARGO_NET_OFFLINE='true', RUSTFLAGS='-Awarnings', CARGO_TARGET_DIR=kx.native_target_dir())
    p = subprocess.run(['cargo', 'test', '--offline', '--lib', 'verif_r1check', '--', '--nocapture'], cwd=crate, env=env, capture_output=True, text=True)
    out = p.stdout + p.stderr
    shutil.rmtree(os.path.dirname(crate), ignore_errors=True)
    m = re.search(r'VERIF-R1CHECK inputs=(\d+)', out)
    return {'ok': p.returncode == 0 and m is not None, 'inputs': int(m.group(1)) if m else 0, 'applications': rules, 'tail': out[-1500:] if p.returncode != 0 else ''}

if __name__ == '__main__':
    r = run()
    print(json.dumps(r, indent=1)[:3000])
    sys.exit(0 if r['ok'] else 2)
