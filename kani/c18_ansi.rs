//@file src/encode/writer/ansi.rs
//@harness c18_set_style_all_styles unwind=16 strength=complete bound="all 9 x 9 x 3 = 243 styles (full domain), loop-free in the code under test"
// Kani twin of the Verus contract of AnsiWriter::set_style: every style yields exactly
// ESC [ 0 (;3c)? (;4c)? (;1|;22)? m on the inner writer. Full finite domain => complete.
#[cfg(any(kani, verif_replay))]
#[allow(dead_code, unused)]
mod __verif_c18_ansi {
    use super::*;
    use crate::__verif_rt::*;
    use crate::{__verif_ob, __verif_cover};

    fn color(v: u8) -> Option<Color> {
        match v { 0 => None, 1 => Some(Color::Black), 2 => Some(Color::Red), 3 => Some(Color::Green), 4 => Some(Color::Yellow),
                  5 => Some(Color::Blue), 6 => Some(Color::Magenta), 7 => Some(Color::Cyan), _ => Some(Color::White) }
    }
    struct Sink { buf: [u8; 32], len: usize, calls: usize }
    impl io::Write for Sink {
        fn write(&mut self, b: &[u8]) -> io::Result<usize> {
            if self.len + b.len() <= 32 { self.buf[self.len..self.len + b.len()].copy_from_slice(b); }
            self.len += b.len();
            self.calls += 1;
            Ok(b.len())
        }
        fn flush(&mut self) -> io::Result<()> { Ok(()) }
    }

    pub(crate) fn body(src: &mut Src) {
        let t = src.u8(); let b = src.u8(); let i = src.u8();
        assume(t <= 8 && b <= 8 && i <= 2);
        let mut style = Style::new();
        style.text = color(t);
        style.background = color(b);
        style.intense = match i { 0 => None, 1 => Some(true), _ => Some(false) };
        let mut w = AnsiWriter(Sink { buf: [0; 32], len: 0, calls: 0 });
        let r = encode::Write::set_style(&mut w, &style);
        // oracle: the SGR sequence of the statement
        let mut e = [0u8; 16]; let mut n = 0;
        e[0] = 0x1b; e[1] = b'['; e[2] = b'0'; n = 3;
        if t > 0 { e[n] = b';'; e[n + 1] = b'3'; e[n + 2] = b'0' + (t - 1); n += 3; }
        if b > 0 { e[n] = b';'; e[n + 1] = b'4'; e[n + 2] = b'0' + (b - 1); n += 3; }
        if i == 1 { e[n] = b';'; e[n + 1] = b'1'; n += 2; }
        if i == 2 { e[n] = b';'; e[n + 1] = b'2'; e[n + 2] = b'2'; n += 3; }
        e[n] = b'm'; n += 1;
        __verif_cover!("longest sequence (text+background+intense=false)", n == 13);
        __verif_ob!("set_style#post Ok", r.is_ok());
        __verif_ob!("set_style#post length of the emitted sequence", w.0.len == n);
        let mut k = 0;
        while k < 13 { if k < n { __verif_ob!("set_style#post bytes of the emitted sequence", w.0.buf[k] == e[k]); } k += 1; }
        std::mem::forget(r);
    }

    #[cfg(kani)]
    #[kani::proof]
    #[kani::unwind(15)]
    fn c18_set_style_all_styles() {
        let mut src = Src::new();
        body(&mut src);
    }
}
