#!/bin/bash
# Native replay of known finding C16/D4 on the real crate (scratch copy of /repo, removed afterwards):
# TimeTrigger::get_next_time unwraps LocalResult::Ambiguous when the start of the current unit falls into a
# DST overlap of the local zone.
set -u
S=${VERIF_SCRATCH:-/tmp/verif-scratch}/replay-d4
rm -rf $S; mkdir -p $S; rsync -a --exclude target --exclude .git ${VERIF_REPO:-/repo}/ $S/crate/
cat >> $S/crate/src/append/rolling_file/policy/compound/trigger/time.rs <<'RS'

#[cfg(test)]
mod verif_replay_d4 {
    use super::*;
    use chrono::TimeZone;
    #[test]
    fn verif_d4_hour_in_dst_overlap() {
        // 2024-10-27 02:30 CEST (+02:00), i.e. inside the hour that is repeated when Europe/Berlin leaves DST
        let current = chrono::Utc.with_ymd_and_hms(2024, 10, 27, 0, 30, 0).unwrap().with_timezone(&Local);
        let next = TimeTrigger::get_next_time(current, TimeTriggerInterval::Hour(1), false);
        assert!(next > current);
    }
}
RS
export CARGO_TARGET_DIR=${VERIF_CACHE:-$HOME/.cache/log4rs-verif}/native-target CARGO_NET_OFFLINE=true RUSTFLAGS=-Awarnings
cd $S/crate
echo "== TZ=Europe/Berlin get_next_time(2024-10-27T02:30+02:00, Hour(1), modulate=false)"
TZ=Europe/Berlin cargo test --offline --lib verif_d4_hour_in_dst_overlap 2>&1 | grep -E "panicked|test result|Ambiguous|No such local time" | head -5
echo "== TZ=UTC (no DST) same call"
TZ=UTC cargo test --offline --lib verif_d4_hour_in_dst_overlap 2>&1 | grep -E "panicked|test result|Ambiguous" | head -5
cd /; rm -rf $S
