#!/usr/bin/env python3
"""regenerate /verif/MANIFEST.json from tools/props.py"""
import json, os, sys
sys.path.insert(0, os.path.dirname(os.path.abspath(__file__)))
import props

NA = {
 'C01': 'effective-logger resolution (ConfiguredLogger::add/find, the length sort) is out of reach of both verifiers: in Verus str::find/split can be given contracts (external_trait_specification for Pattern + --no-trait-conflicts), but as soon as the unit also contains a HashMap (any use of Clone) Verus dies with an internal error on Split<P>: Clone, whose bound names the GAT Pattern::Searcher that an external trait specification cannot declare; CBMC does not terminate on even one concrete three-logger configuration (hashbrown + TwoWaySearcher, 25 min); the node-local half (threshold, fan-out) is decided under C02/C03',
 'C04': 'quantifies over thread schedules and other readers of a real file; Kani has no threads and ICEs on parking_lot::Mutex::lock; no sequential postcondition is expressible on FileAppender::append(&self) over the File it mutates',
 'C05': 'whole-history property over real directory states and schedules; its per-call mechanisms are decided under C06 (accounting, size trigger), C07 (rotate) and C08 (process/roll/faults)',
 'C09': 'denotation of a recursive grammar through write!/thread::current()/chrono/log_mdc: Verus rejects format macros and ref patterns, Kani ICEs on thread::current and does not finish on the parser (Unicode tables)',
 'C12': 'correctness is serde_json escaping and serde derive attributes over chrono/thread ids; no function of log4rs computes the bytes, so no contract on log4rs code can express it',
 'C14': 'behaviour is #[derive(Deserialize)] + deny_unknown_fields + three third-party parsers; derive-generated code is outside both verifiers',
 'C15': 'atomicity under schedules belongs to arc_swap (Kani ICE, no threads; Verus would need its permission types, i.e. a rewrite); the reloader is fs::metadata + thread::sleep',
 'C19': 'expand_env_vars is built on match_indices/replace over Cow<str>: the MatchIndices<P>: Clone impl triggers the same Verus internal error as in C01 (GAT Pattern::Searcher), and CBMC does not finish one fully concrete 16-byte path in 15 min, so not even a bounded stand-in exists',
}

def main():
    checks = []
    for pid in sorted(props.PROPS):
        P = props.PROPS[pid]
        checks.append({
            'property_id': pid,
            'quick_cmd': './check %s --tier quick' % pid,
            'thorough_cmd': './check %s --tier thorough' % pid,
            'evidence_file': 'evidence/%s.json' % pid,
            'replay_cmd_template': 'cat {path}',
            'engine': 'verus+kani' if P.get('verus') and P.get('kani') else ('verus' if P.get('verus') else 'kani'),
            'level_claimed': {'category': P['level'], 'text': P['explanation'], 'design_ref': 'DESIGN.md section 5, ' + pid},
            'level_note': P.get('level_note', 'trusted: Verus/Z3, Kani/CBMC, the extractor, contract headers for std/log/chrono/anyhow; unverified functions on the path are listed in the evidence (unverified_on_path)'),
            'technique': P.get('technique', 'contract-based deductive verification of the real code (Verus on mechanically extracted functions; Kani contracts/bounded twins for counterexamples)'),
        })
    na = [{'property_id': k, 'reason': v} for k, v in sorted(NA.items()) if k not in props.PROPS]
    for pid, why in sorted(getattr(props, 'PENDING', {}).items()):
        if pid not in props.PROPS:
            na.append({'property_id': pid, 'reason': why})
    man = {
        'version': 1,
        'setup_cmd': './setup.sh',
        'hooks': {'guard': 'cfg(kani) / cfg(verif_replay) (only ever set in scratch copies; no hook is committed to /repo)',
                  'enable': 'none needed: harness modules are appended to a scratch copy of /repo by tools/kx.py, contracts are woven into extracted text by tools/vx.py',
                  'baseline_off_cmd': 'cd /repo && cargo test --workspace --no-fail-fast --offline',
                  'source_commits': [], 'add_only': True},
        'engines': [
            {'name': 'verus', 'path': 'tools/vx.py', 'serves_properties': sorted(p for p in props.PROPS if props.PROPS[p].get('verus')), 'kind_free_text': 'deductive verifier (Z3) on mechanically extracted real functions with woven contracts'},
            {'name': 'kani', 'path': 'tools/kx.py', 'serves_properties': sorted(p for p in props.PROPS if props.PROPS[p].get('kani')), 'kind_free_text': 'CBMC-based verifier on the real crate with woven harness modules: complete loop-free harnesses, bounded stand-ins, counterexample twins'},
        ],
        'checks': checks,
        'not_applicable': sorted(na, key=lambda x: x['property_id']),
        'notes': 'Exit codes: 0 held, 1 VIOLATION, 2 undecided (lost anchor / unsupported construct / timeout) - never an alarm. Known findings: known_findings.json.',
    }
    json.dump(man, open(os.path.join(os.path.dirname(os.path.dirname(os.path.abspath(__file__))), 'MANIFEST.json'), 'w'), indent=1)

if __name__ == '__main__':
    main()
