//@file src/encode/pattern/parser.rs
//@harness c10_parameters unwind=12 strength=bounded bound="format specs ':' [[fill] align] [min] ['.' max] '}' with fill in {none, *, 0, <, e-acute, euro, U+1F600}, align in {none, <, >}, widths of 0-2 digits" timeout=1500 body=body
// Parser::parameters: fill character (any scalar value, including multi-byte and syntax characters), alignment and the
// two widths are read exactly as written; the closing brace is left for the caller.
#[cfg(any(kani, verif_replay))]
#[allow(dead_code, unused)]
mod __verif_c10_params {
    use super::*;
    use crate::__verif_rt::*;
    use crate::{__verif_ob, __verif_cover};
    fn put(s: &[u8], out: &mut [u8; 24], len: &mut usize) { let mut i = 0; while i < s.len() { out[*len] = s[i]; *len += 1; i += 1; } }
    pub(crate) fn body(src: &mut Src) {
        let mut b = [0u8; 24]; let mut n = 0usize;
        put(b":", &mut b, &mut n);
        let fill = src.u8(); assume(fill <= 6);
        let align = src.u8(); assume(align <= 2);
        // a fill character is only meaningful (and only parsed) when an alignment follows it
        assume(fill == 0 || align != 0);
        let fch: char = match fill { 1 => '*', 2 => '0', 3 => '<', 4 => 'é', 5 => '€', 6 => '😀', _ => ' ' };
        match fill { 1 => put(b"*", &mut b, &mut n), 2 => put(b"0", &mut b, &mut n), 3 => put(b"<", &mut b, &mut n), 4 => put("é".as_bytes(), &mut b, &mut n), 5 => put("€".as_bytes(), &mut b, &mut n), 6 => put("😀".as_bytes(), &mut b, &mut n), _ => {} }
        match align { 1 => put(b"<", &mut b, &mut n), 2 => put(b">", &mut b, &mut n), _ => {} }
        let nmin = src.u8(); assume(nmin <= 2);
        let d = [src.u8(), src.u8(), src.u8(), src.u8()]; assume(d[0] < 10 && d[1] < 10 && d[2] < 10 && d[3] < 10);
        // without fill/align a leading digit would be read as the width, so the first min digit is what it is
        let mut minv = 0usize; let mut i = 0; while i < nmin as usize { b[n] = b'0' + d[i]; n += 1; minv = minv * 10 + d[i] as usize; i += 1; }
        let has_max = src.bool();
        let nmax = src.u8(); assume(nmax <= 2);
        let mut maxv = 0usize;
        if has_max { put(b".", &mut b, &mut n); let mut i = 0; while i < nmax as usize { b[n] = b'0' + d[2 + i]; n += 1; maxv = maxv * 10 + d[2 + i] as usize; i += 1; } }
        put(b"}", &mut b, &mut n);
        let s = unsafe { std::str::from_utf8_unchecked(&b[..n]) };
        let mut p = Parser::new(s);
        let params = p.parameters();
        __verif_cover!("multi-byte fill with right alignment and both widths", fill == 5 && align == 2 && nmin == 1 && has_max && nmax == 2);
        __verif_cover!("syntax character as fill", fill == 3 && align == 1);
        __verif_ob!("parameters#post fill is the character written before the alignment (default space)", params.fill == fch);
        __verif_ob!("parameters#post alignment as written (default left)", params.align == if align == 2 { Alignment::Right } else { Alignment::Left });
        __verif_ob!("parameters#post minimum width as written", params.min_width == if nmin == 0 { None } else { Some(minv) });
        __verif_ob!("parameters#post maximum width as written", params.max_width == if has_max && nmax > 0 { Some(maxv) } else { None });
        __verif_ob!("parameters#post the closing brace is left for the caller", matches!(p.it.peek(), Some(&(pos, '}')) if pos == n - 1));
    }
    #[cfg(kani)] #[kani::proof] #[kani::unwind(12)] fn c10_parameters() { let mut s = Src::new(); body(&mut s); }
}
