//@file src/append/rolling_file/policy/compound/roll/fixed_window.rs
//@harness c07_rotate_b0_c1 unwind=14 strength=bounded bound="base=0,count=1; pattern {}; every initial directory over slots 0..9 + active + bystander, any contents; a fault at any move" timeout=1500 body=body_b0_c1
//@harness c07_rotate_b0_c3 unwind=14 strength=bounded bound="base=0,count=3; same" timeout=1500 body=body_b0_c3 tier=thorough
//@harness c07_rotate_b1_c2 unwind=14 strength=bounded bound="base=1,count=2; same" timeout=1500 body=body_b1_c2 tier=thorough
//@harness c07_rotate_b1_c3 unwind=14 strength=bounded bound="base=1,count=3; same" timeout=1500 body=body_b1_c3
//@harness c07_rotate_b3_c4 unwind=14 strength=bounded bound="base=3,count=4; same" timeout=2400 body=body_b3_c4 tier=thorough
//@harness c07_rotate_b0_c5 unwind=14 strength=bounded bound="base=0,count=5; same" timeout=2400 body=body_b0_c5 tier=thorough
//@harness c07_rotate_b0_c2 unwind=14 strength=bounded bound="base=0,count=2; same" timeout=2400 body=body_b0_c2 tier=thorough
//@harness c07_rotate_b3_c1 unwind=14 strength=bounded bound="base=3,count=1; same" timeout=2400 body=body_b3_c1 tier=thorough
//@harness c07_rotate_dirs_b0_c3 unwind=14 strength=bounded bound="base=0,count=3; pattern {}/f (index in a directory component): a move into a directory that was not created is lost as rename(2)+move_file would lose it; every initial directory state" timeout=2400 body=body_dirs_b0_c3
//@harness c07_move_file strength=complete bound="all outcomes of rename {Ok, NotFound, other} x copy {Ok, Err} x remove_file {Ok, Err} (full outcome space), loop-free" timeout=600 replay=no
//@harness c07_roll_count0 strength=bounded bound="count == 0, any base, remove_file succeeding (the error path builds an anyhow::Error, which CBMC does not finish)" timeout=600 replay=no
// rotate(): the real function runs on a model directory. move_file and fs::create_dir_all are replaced by the model
// (their real bodies are separate units: c07_move_file; create_dir_all is std). Names are single digits (pattern "{}"),
// the active file is "f", a bystander "x" is never named by the roller.
#[cfg(any(kani, verif_replay))]
#[allow(dead_code, unused)]
mod __verif_c07 {
    use super::*;
    use crate::__verif_rt::*;
    use crate::{__verif_ob, __verif_cover};

    pub(crate) static mut FS: [Option<u8>; 12] = [None; 12];
    pub(crate) static mut FAULT_AT: u8 = 255;   // index of the move call that fails (255 = none)
    pub(crate) static mut MOVES: u8 = 0;
    fn slot(p: &Path) -> usize {
        let b = p.as_os_str().as_encoded_bytes();
        if b.len() == 1 && b[0] == b'f' { 10 } else if b.len() == 1 && b[0] == b'x' { 11 }
        else { assert!(b.len() == 1 && b[0] >= b'0' && b[0] <= b'9'); (b[0] - b'0') as usize }
    }
    // model of move_file: rename semantics incl. "NotFound is tolerated"; a fault leaves the directory untouched
    pub(crate) fn model_move<P: AsRef<Path>, Q: AsRef<Path>>(src: P, dst: Q) -> io::Result<()> {
        unsafe {
            let n = MOVES; MOVES += 1;
            let s = slot(src.as_ref()); let d = slot(dst.as_ref());
            if FS[s].is_none() { return Ok(()); }
            if n == FAULT_AT { return Err(io::Error::from(io::ErrorKind::PermissionDenied)); }
            FS[d] = FS[s].take();
            Ok(())
        }
    }
    pub(crate) fn model_mkdir<P: AsRef<Path>>(_p: P) -> io::Result<()> { Ok(()) }
    // rotate() itself has no business removing files: if a variant does, the model directory shows the effect
    pub(crate) fn model_rm<P: AsRef<Path>>(p: P) -> io::Result<()> { unsafe { let s = slot(p.as_ref()); if FS[s].is_none() { return Err(io::Error::from(io::ErrorKind::NotFound)); } FS[s] = None; Ok(()) } }

    pub(crate) fn rotate_body(src: &mut Src, base: u32, count: u32) {
        let mut old: [Option<u8>; 12] = [None; 12];
        let mut i = 0;
        while i < 12 { let present = src.bool(); let c = src.u8(); if present { old[i] = Some(c); } i += 1; }
        assume(old[10].is_some());
        let fault = src.u8();
        assume(fault == 255 || (fault as u32) < count);
        unsafe { FS = old; FAULT_AT = fault; MOVES = 0; }
        let r = rotate("{}".to_owned(), Compression::None, base, count, PathBuf::from("f"));
        let new = unsafe { FS };
        let b = base as usize; let c = count as usize;
        __verif_cover!("a gap in the window (trivial when count is 1)", c < 2 || (old[b].is_none() && old[b + c - 1].is_some()));
        __verif_cover!("full window: the oldest archive is evicted", old[b + c - 1].is_some() && (c < 2 || old[b + c - 2].is_some()));
        // frame (C07): no file outside base..base+count-1 and the active path is created, modified or removed
        let mut k = 0usize;
        while k < 12 { if k != 10 && (k < b || k >= b + c) { __verif_ob!("rotate#frame nothing outside the window is touched", new[k] == old[k]); } k += 1; }
        if fault == 255 {
            __verif_ob!("rotate#post Ok without faults", r.is_ok());
            __verif_ob!("rotate#post the rolled file is gone from its original path", new[10].is_none());
            __verif_ob!("rotate#post index base holds the file just rolled", new[b] == old[10]);
            let mut j = 1usize;
            while j < c {
                if old[b + j - 1].is_some() { __verif_ob!("rotate#post index base+j holds what base+j-1 held", new[b + j] == old[b + j - 1]); }
                else { __verif_ob!("rotate#post a gap invents nothing", new[b + j].is_none() || new[b + j] == old[b + j]); }
                j += 1;
            }
            // nothing but the oldest archive may disappear: every other chunk is still in the window
            let mut s0 = 0usize;
            while s0 < 12 {
                // (the oldest archive, slot base+count-1, is evicted only by the chunk shifted onto it: if the slot below it is empty it stays)
                let evictable = s0 + 1 == b + c && (c == 1 || old[s0 - 1].is_some());
                if (s0 == 10 || (s0 >= b && s0 < b + c && !evictable)) && old[s0].is_some() {
                    let mut found = false; let mut t = b;
                    while t < b + c { if new[t] == old[s0] { found = true; } t += 1; }
                    __verif_ob!("rotate#post every chunk is retained, except an oldest archive that a shifted chunk replaces", found);
                }
                s0 += 1;
            }
        } else {
            // C08: a failed step loses nothing that the completed rotation would retain
            __verif_cover!("fault injected at the final move", r.is_err() && new[10].is_some());
            if r.is_err() {
                // everything except the evicted (oldest, slot base+count-1) content is still somewhere in the window or at the active path
                let mut s = 0usize;
                while s < 12 {
                    let managed = s == 10 || (s >= b && s + 1 < b + c);
                    if managed && old[s].is_some() {
                        let mut found = false; let mut t = 0usize;
                        while t < 12 { if (t == 10 || (t >= b && t < b + c)) && new[t] == old[s] { found = true; } t += 1; }
                        __verif_ob!("rotate#fault every retained chunk survives a failed step", found);
                    }
                    s += 1;
                }
                __verif_ob!("rotate#fault the active file is still in place after a failed rotation", new[10] == old[10]);
            }
        }
        std::mem::forget(r);
    }
    // ---- index in a directory component: pattern "{}/f"; a directory exists iff it was created or already held an archive
    pub(crate) static mut DIRS: [bool; 10] = [false; 10];
    fn dslot(p: &Path) -> usize {
        let b = p.as_os_str().as_encoded_bytes();
        if b.len() == 1 && b[0] == b'f' { 10 } else { assert!(b.len() == 3 && b[0] >= b'0' && b[0] <= b'9' && b[1] == b'/' && b[2] == b'f'); (b[0] - b'0') as usize }
    }
    pub(crate) fn model_move_dirs<P: AsRef<Path>, Q: AsRef<Path>>(src: P, dst: Q) -> io::Result<()> {
        unsafe {
            let s = dslot(src.as_ref()); let d = dslot(dst.as_ref());
            if FS[s].is_none() { return Ok(()); }
            // rename(2) into a missing directory fails with ENOENT, which move_file tolerates as "source missing"
            if d < 10 && !DIRS[d] { return Ok(()); }
            FS[d] = FS[s].take();
            Ok(())
        }
    }
    pub(crate) fn model_mkdir_dirs<P: AsRef<Path>>(p: P) -> io::Result<()> {
        let b = p.as_ref().as_os_str().as_encoded_bytes();
        if b.len() == 1 && b[0] >= b'0' && b[0] <= b'9' { unsafe { DIRS[(b[0] - b'0') as usize] = true; } }
        Ok(())
    }
    pub(crate) fn rotate_dirs_body(src: &mut Src, base: u32, count: u32) {
        let mut old: [Option<u8>; 12] = [None; 12];
        let mut i = 0;
        while i < 12 { let present = src.bool(); let c = src.u8(); if present && i != 11 { old[i] = Some(c); } i += 1; }
        assume(old[10].is_some());
        let mut dirs = [false; 10];
        let mut i = 0; while i < 10 { dirs[i] = old[i].is_some(); i += 1; }
        unsafe { FS = old; DIRS = dirs; }
        let r = rotate("{}/f".to_owned(), Compression::None, base, count, PathBuf::from("f"));
        let new = unsafe { FS };
        let b = base as usize; let c = count as usize;
        __verif_cover!("an archive must move into a directory that does not exist yet", old[b].is_some() && old[b + 1].is_none());
        __verif_ob!("rotate#post Ok", r.is_ok());
        __verif_ob!("rotate#post the rolled file is gone from its original path", new[10].is_none());
        __verif_ob!("rotate#post index base holds the file just rolled", new[b] == old[10]);
        let mut j = 1usize;
        while j < c { if old[b + j - 1].is_some() { __verif_ob!("rotate#post index base+j holds what base+j-1 held (directory created on demand)", new[b + j] == old[b + j - 1]); } j += 1; }
        let mut k = 0usize;
        while k < 10 { if k < b || k >= b + c { __verif_ob!("rotate#frame nothing outside the window is touched", new[k] == old[k]); } k += 1; }
        std::mem::forget(r);
    }
    pub(crate) fn body_dirs_b0_c3(s: &mut Src) { rotate_dirs_body(s, 0, 3) }

    pub(crate) fn body_b0_c1(s: &mut Src) { rotate_body(s, 0, 1) }
    pub(crate) fn body_b0_c2(s: &mut Src) { rotate_body(s, 0, 2) }
    pub(crate) fn body_b0_c3(s: &mut Src) { rotate_body(s, 0, 3) }
    pub(crate) fn body_b1_c2(s: &mut Src) { rotate_body(s, 1, 2) }
    pub(crate) fn body_b1_c3(s: &mut Src) { rotate_body(s, 1, 3) }
    pub(crate) fn body_b3_c1(s: &mut Src) { rotate_body(s, 3, 1) }
    pub(crate) fn body_b3_c4(s: &mut Src) { rotate_body(s, 3, 4) }
    pub(crate) fn body_b0_c5(s: &mut Src) { rotate_body(s, 0, 5) }

    // ---- move_file: real body, std::fs stubbed by an outcome model
    pub(crate) static mut RENAME: u8 = 0; // 0 ok, 1 notfound, 2 other
    pub(crate) static mut COPY_OK: bool = true;
    pub(crate) static mut RM_OK: bool = true;
    pub(crate) static mut CALLS: [u8; 3] = [0; 3];
    pub(crate) static mut ARGS_OK: bool = true;
    fn is1(p: &Path, c: u8) -> bool { let b = p.as_os_str().as_encoded_bytes(); b.len() == 1 && b[0] == c }
    pub(crate) fn m_rename<P: AsRef<Path>, Q: AsRef<Path>>(_a: P, _b: Q) -> io::Result<()> { unsafe { CALLS[0] += 1; if !(is1(_a.as_ref(), b'a') && is1(_b.as_ref(), b'b')) { ARGS_OK = false; } match RENAME { 0 => Ok(()), 1 => Err(io::Error::from(io::ErrorKind::NotFound)), _ => Err(io::Error::from(io::ErrorKind::PermissionDenied)) } } }
    pub(crate) fn m_copy<P: AsRef<Path>, Q: AsRef<Path>>(_a: P, _b: Q) -> io::Result<u64> { unsafe { CALLS[1] += 1; if !(is1(_a.as_ref(), b'a') && is1(_b.as_ref(), b'b')) { ARGS_OK = false; } if COPY_OK { Ok(0) } else { Err(io::Error::from(io::ErrorKind::Other)) } } }
    pub(crate) fn m_rm<P: AsRef<Path>>(_a: P) -> io::Result<()> { unsafe { CALLS[2] += 1; if !(is1(_a.as_ref(), b'a') || is1(_a.as_ref(), b'f')) { ARGS_OK = false; } if RM_OK { Ok(()) } else { Err(io::Error::from(io::ErrorKind::Other)) } } }
}

#[cfg(kani)]
#[allow(dead_code, unused)]
mod __verif_c07_k {
    use super::*;
    use super::__verif_c07::*;
    use crate::__verif_rt::*;
    macro_rules! rot { ($name:ident, $body:ident) => {
        #[kani::proof]
        #[kani::unwind(14)]
        #[kani::stub(move_file, model_move)]
        #[kani::stub(std::fs::create_dir_all, model_mkdir)]
        #[kani::stub(std::fs::remove_file, model_rm)]
        fn $name() { let mut src = Src::new(); $body(&mut src); }
    } }
    #[kani::proof]
    #[kani::unwind(14)]
    #[kani::stub(move_file, model_move_dirs)]
    #[kani::stub(std::fs::create_dir_all, model_mkdir_dirs)]
    fn c07_rotate_dirs_b0_c3() { let mut src = Src::new(); body_dirs_b0_c3(&mut src); }
    rot!(c07_rotate_b0_c1, body_b0_c1);
    rot!(c07_rotate_b0_c2, body_b0_c2);
    rot!(c07_rotate_b0_c3, body_b0_c3);
    rot!(c07_rotate_b1_c2, body_b1_c2);
    rot!(c07_rotate_b1_c3, body_b1_c3);
    rot!(c07_rotate_b3_c1, body_b3_c1);
    rot!(c07_rotate_b3_c4, body_b3_c4);
    rot!(c07_rotate_b0_c5, body_b0_c5);

    #[kani::proof]
    #[kani::stub(std::fs::rename, m_rename)]
    #[kani::stub(std::fs::copy, m_copy)]
    #[kani::stub(std::fs::remove_file, m_rm)]
    fn c07_move_file() {
        let rn: u8 = kani::any(); kani::assume(rn <= 2);
        let c: bool = kani::any(); let r: bool = kani::any();
        unsafe { RENAME = rn; COPY_OK = c; RM_OK = r; CALLS = [0; 3]; ARGS_OK = true; }
        let res = move_file("a", "b");
        let calls = unsafe { CALLS };
        kani::cover!(rn == 2 && !c, "cross-device fallback whose copy fails");
        assert!(calls[0] >= 1, "move_file#post the rename is attempted first");
        assert!(unsafe { ARGS_OK }, "move_file#post rename and copy go from src to dst, and only src is ever removed");
        if rn <= 1 {
            assert!(res.is_ok(), "move_file#post rename Ok or NotFound => Ok");
            assert!(calls[1] == 0 && calls[2] == 0, "move_file#post no fallback after rename Ok / NotFound");
        } else {
            assert!(calls[1] >= 1, "move_file#post the fallback copies the file");
            assert!(if c { calls[2] >= 1 } else { calls[2] == 0 }, "move_file#post the source is removed after, and only after, a successful copy");
            assert!(res.is_ok() == (c && r), "move_file#post result is the conjunction of copy and remove");
        }
        std::mem::forget(res);
    }

    #[kani::proof]
    #[kani::unwind(4)]
    #[kani::stub(std::fs::remove_file, m_rm)]
    #[kani::stub(move_file, model_move)]
    #[kani::stub(std::fs::create_dir_all, model_mkdir)]
    fn c07_roll_count0() {
        let r: bool = true;
        unsafe { RM_OK = r; CALLS = [0; 3]; MOVES = 0; }
        let roller = FixedWindowRoller { pattern: String::new(), compression: Compression::None, base: kani::any(), count: 0 };
        let res = Roll::roll(&roller, Path::new("f"));
        let calls = unsafe { CALLS };
        assert!(calls[2] == 1, "roll#post count==0 removes the rolled file exactly once");
        assert!(unsafe { MOVES } == 0, "roll#post count==0 never moves anything");
        assert!(res.is_ok() == r, "roll#post count==0 propagates the result of remove_file");
        std::mem::forget(res); std::mem::forget(roller);
    }
}
