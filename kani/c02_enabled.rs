//@file src/lib.rs
//@harness c02_enabled_twin strength=complete bound="all 6 thresholds x 5 levels (full domain), loop-free" timeout=300 body=body_enabled
//@harness c02_log_header_conformance strength=complete bound="every comparison clause of headers/log.rs on its full domain (6x5 cross pairs in both directions, 6x6 and 5x5 same-type pairs; ==, <, <=, >, >=), loop-free" timeout=300 body=body_header
// ConfiguredLogger::enabled(level) <=> threshold admits level (twin of the Verus contract; also the conformance check
// of headers/log.rs against the real `log` crate). (A Kani twin of max_log_level on a 4-node tree was tried: CBMC does not finish in 400 s because of hashbrown; removed.)
#[cfg(any(kani, verif_replay))]
#[allow(dead_code, unused)]
mod __verif_c02 {
    use super::*;
    use crate::__verif_rt::*;
    use crate::{__verif_ob, __verif_cover};
    fn filt(v: u8) -> LevelFilter { match v {0=>LevelFilter::Off,1=>LevelFilter::Error,2=>LevelFilter::Warn,3=>LevelFilter::Info,4=>LevelFilter::Debug,_=>LevelFilter::Trace} }
    fn lvl(v: u8) -> Level { match v {1=>Level::Error,2=>Level::Warn,3=>Level::Info,4=>Level::Debug,_=>Level::Trace} }
    fn rank(l: LevelFilter) -> u8 { match l {LevelFilter::Off=>0,LevelFilter::Error=>1,LevelFilter::Warn=>2,LevelFilter::Info=>3,LevelFilter::Debug=>4,LevelFilter::Trace=>5} }

    pub(crate) fn body_enabled(src: &mut Src) {
        let lf = src.u8(); assume(lf <= 5);
        let lv = src.u8(); assume(lv >= 1 && lv <= 5);
        let node = ConfiguredLogger { level: filt(lf), appenders: Vec::new(), children: FnvHashMap::default() };
        let r = node.enabled(lvl(lv));
        __verif_cover!("level exactly at the threshold", lf == lv);
        __verif_ob!("enabled#post enabled iff the threshold admits the level", r == (lv <= lf));
        std::mem::forget(node);
    }

    // conformance of the contract header headers/log.rs with the real `log` crate: every clause there says "compare by rank"
    pub(crate) fn body_header(src: &mut Src) {
        let a = src.u8(); assume(a <= 5);
        let b = src.u8(); assume(b <= 5);
        let (fa, fb) = (filt(a), filt(b));
        __verif_ob!("headers/log.rs LevelFilter vs LevelFilter compares by rank", (fa > fb) == (a > b) && (fa >= fb) == (a >= b) && (fa < fb) == (a < b) && (fa <= fb) == (a <= b) && (fa == fb) == (a == b));
        if a >= 1 && b >= 1 {
            let (la, lb) = (lvl(a), lvl(b));
            __verif_ob!("headers/log.rs Level vs Level compares by rank", (la > lb) == (a > b) && (la >= lb) == (a >= b) && (la < lb) == (a < b) && (la <= lb) == (a <= b) && (la == lb) == (a == b));
        }
        if b >= 1 {
            let lb = lvl(b);
            __verif_ob!("headers/log.rs LevelFilter vs Level compares by rank", (fa > lb) == (a > b) && (fa >= lb) == (a >= b) && (fa < lb) == (a < b) && (fa <= lb) == (a <= b) && (fa == lb) == (a == b));
            __verif_ob!("headers/log.rs Level vs LevelFilter compares by rank", (lb > fa) == (b > a) && (lb >= fa) == (b >= a) && (lb < fa) == (b < a) && (lb <= fa) == (b <= a) && (lb == fa) == (b == a));
        }
        __verif_ob!("headers/log.rs std::cmp::max on LevelFilter returns the more verbose one", rank(std::cmp::max(fa, fb)) == if b >= a { b } else { a });
    }

    #[cfg(kani)]
    #[kani::proof]
    fn c02_log_header_conformance() { let mut src = Src::new(); body_header(&mut src); }

    #[cfg(kani)]
    #[kani::proof]
    fn c02_enabled_twin() { let mut src = Src::new(); body_enabled(&mut src); }
}
