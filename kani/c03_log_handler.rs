//@file src/lib.rs
//@harness c03_log_error_handler unwind=5 strength=bounded bound="root logger with 3 attachments over 3 appenders each failing or not, any threshold x level; ArcSwap::load replaced by an equivalent guard construction, ConfiguredLogger::find by the identity (routing is C01, not claimed)" timeout=1200 replay=no
// <Logger as log::Log>::log: "each appender error is handed to the configured error handler exactly once";
// the snapshot is loaded once and used for the fan-out and for the error handler.
#[cfg(kani)]
#[allow(dead_code, unused)]
mod __verif_c03_handler {
    use super::*;
    use std::sync::atomic::{AtomicPtr, AtomicUsize, Ordering};
    use arc_swap::{ArcSwapAny, Guard, RefCnt, strategy::Strategy};
    static HANDLED: AtomicUsize = AtomicUsize::new(0);
    static HANDLED_SUM: AtomicUsize = AtomicUsize::new(0);
    static LOADS: AtomicUsize = AtomicUsize::new(0);
    struct Cap(usize, bool);
    impl std::fmt::Debug for Cap { fn fmt(&self, _f: &mut std::fmt::Formatter<'_>) -> std::fmt::Result { Ok(()) } }
    impl Append for Cap {
        fn append(&self, _r: &Record) -> anyhow::Result<()> {
            // opaque, never-dropped error tokens that identify the failing appender
            if self.1 { Err(unsafe { std::mem::transmute::<usize, anyhow::Error>(0x1000 + self.0 * 16) }) } else { Ok(()) }
        }
        fn flush(&self) {}
    }
    // ArcSwapAny::load without the thread-local debt machinery (which Kani cannot compile): read the pointer, take a reference count
    fn m_load<T: RefCnt, S: Strategy<T>>(s: &ArcSwapAny<T, S>) -> Guard<T, S> {
        LOADS.fetch_add(1, Ordering::Relaxed);
        let p = unsafe { (*(s as *const ArcSwapAny<T, S> as *const AtomicPtr<T::Base>)).load(Ordering::Relaxed) };
        let v: T = unsafe { T::from_ptr(p) };
        T::inc(&v);
        Guard::from_inner(v)
    }
    fn m_find<'a>(n: &'a ConfiguredLogger, _p: &str) -> &'a ConfiguredLogger { n }
    fn filt(v: u8) -> LevelFilter { match v {0=>LevelFilter::Off,1=>LevelFilter::Error,2=>LevelFilter::Warn,3=>LevelFilter::Info,4=>LevelFilter::Debug,_=>LevelFilter::Trace} }
    fn lvl(v: u8) -> Level { match v {1=>Level::Error,2=>Level::Warn,3=>Level::Info,4=>Level::Debug,_=>Level::Trace} }

    #[kani::proof]
    #[kani::unwind(5)]
    #[kani::stub(arc_swap::ArcSwapAny::load, m_load)]
    #[kani::stub(ConfiguredLogger::find, m_find)]
    fn c03_log_error_handler() {
        let idx: [usize; 3] = kani::any();
        kani::assume(idx[0] < 3 && idx[1] < 3 && idx[2] < 3);
        let fail: [bool; 3] = kani::any();
        let lf: u8 = kani::any(); kani::assume(lf <= 5);
        let lv: u8 = kani::any(); kani::assume(lv >= 1 && lv <= 5);
        let shared = SharedLogger {
            root: ConfiguredLogger { level: filt(lf), appenders: vec![idx[0], idx[1], idx[2]], children: FnvHashMap::default() },
            appenders: vec![Appender { appender: Box::new(Cap(0, fail[0])), filters: vec![] }, Appender { appender: Box::new(Cap(1, fail[1])), filters: vec![] }, Appender { appender: Box::new(Cap(2, fail[2])), filters: vec![] }],
            err_handler: Box::new(|e: &anyhow::Error| {
                HANDLED.fetch_add(1, Ordering::Relaxed);
                let t: usize = unsafe { *(e as *const anyhow::Error as *const usize) };
                HANDLED_SUM.fetch_add(t - 0x1000, Ordering::Relaxed);
            }),
        };
        let logger = Logger(Arc::new(ArcSwap::new(Arc::new(shared))));
        let rec = Record::builder().level(lvl(lv)).build();
        log::Log::log(&logger, &rec);
        let admitted = lv <= lf;
        let mut nfail = 0; let mut sum = 0; let mut j = 0;
        while j < 3 { if fail[idx[j]] { nfail += 1; sum += idx[j] * 16; } j += 1; }
        kani::cover!(admitted && nfail == 2, "two failing deliveries");
        assert!(LOADS.load(Ordering::Relaxed) == 1, "log#post the configuration snapshot is loaded exactly once per record");
        assert!(HANDLED.load(Ordering::Relaxed) == if admitted { nfail } else { 0 }, "log#post every appender error reaches the error handler exactly once");
        assert!(HANDLED_SUM.load(Ordering::Relaxed) == if admitted { sum } else { 0 }, "log#post the errors handed over are the ones the failing appenders returned");
        std::mem::forget(logger);
    }
}
