#!/usr/bin/env python3
"""rewrite the '<!-- BENIGN:BEGIN --> ... <!-- BENIGN:END -->' region of DESIGN.md from benign/results*.log
(lines written by tools/benign_matrix.py: `<corpus>-<diff> <property> <exit code> [check output lines]`; a later line for the same
(diff, property) replaces an earlier one)"""
import ast, glob, os, re
V = os.path.dirname(os.path.dirname(os.path.abspath(__file__)))
res = {}
for f in sorted(glob.glob(os.path.join(V, 'benign', 'results*.log'))):
    for l in open(f):
        m = re.match(r'^(\S+) (C\d+) (\S+) (\[.*\])\s*$', l)
        if m:
            try:
                lines = ast.literal_eval(m.group(4))
            except Exception:
                lines = [m.group(4)]
            res[(m.group(1), m.group(2))] = (m.group(3), lines)
notes = {}
for d in sorted(glob.glob(os.path.join(V, 'benign', '?'))):
    for l in open(os.path.join(d, 'notes.txt')):
        m = re.match(r'^(benign\d)\.diff:\s*(.*)$', l)
        if m:
            notes['%s-%s' % (os.path.basename(d), m.group(1))] = m.group(2)
rows = []
for name in sorted(set(k[0] for k in res)):
    cells = []
    for (n, pid), (rc, lines) in sorted(res.items()):
        if n != name:
            continue
        why = ''
        if rc == '2':
            und = [x for x in lines if x.startswith('UNDECIDED')]
            why = ' (' + re.sub(r'^UNDECIDED: ', '', und[0])[:90] + ')' if und else ''
        cells.append('%s: exit %s%s' % (pid, rc, why))
    rows.append('| %s | %s | %s |' % (name, notes.get(name, '')[:170].replace('|', '/'), '; '.join(cells)))
alarms = sum(1 for (rc, _) in res.values() if rc == '1')
table = ('%d (diff, property) runs: %d exit 0, %d exit 2, %d exit 1.\n\n| diff | what it does | `./check` on the affected properties |\n|---|---|---|\n' %
         (len(res), sum(1 for (rc, _) in res.values() if rc == '0'), sum(1 for (rc, _) in res.values() if rc == '2'), alarms)) + '\n'.join(rows)
p = os.path.join(V, 'DESIGN.md')
s = open(p).read()
if '<!-- BENIGN:BEGIN -->' in s:
    s = re.sub(r'<!-- BENIGN:BEGIN -->.*?<!-- BENIGN:END -->', lambda _m: '<!-- BENIGN:BEGIN -->\n' + table + '\n<!-- BENIGN:END -->', s, flags=re.S)
    open(p, 'w').write(s)
print(table)
