// contract header (assumed): crate `anyhow` — an opaque error type; `?` with the same error type needs no conversion.
pub mod anyhow {
    use vstd::prelude::*;
    #[verifier::external_body]
    pub struct Error { _p: () }
    pub type Result<T> = std::result::Result<T, Error>;
}
