#!/usr/bin/env python3
"""Small Rust item scanner used by the weavers (vx.py, kx.py).

It is *not* a Rust parser: it understands exactly what is needed to locate an item by path and to
copy its text byte for byte: comments (nested block comments), string / raw-string / byte-string
literals, char literals vs. lifetimes, and (), [], {} nesting.

Public API
  mask(src)                 -> string of the same length in which every comment/string/char byte is
                               replaced by a blank (newlines kept) so that brace matching and keyword
                               searches can be done with plain string operations.
  items(src, lo, hi)        -> list of Item for the block src[lo:hi]
  find_item(src, path)      -> Item   (path = ["impl Appender", "append"] or ["check_logger_name"])
  loops(src, lo, hi)        -> list of Loop in source order inside a function body
  strip_attrs_and_docs(txt) -> text with outer attributes and doc comments removed (E3)
"""
import re
from dataclasses import dataclass, field


class ScanError(Exception):
    pass


def mask(src: str) -> str:
    out = list(src)
    n = len(src)
    i = 0

    def blank(a, b):
        for k in range(a, b):
            if out[k] != '\n':
                out[k] = ' '

    while i < n:
        c = src[i]
        if c == '/' and i + 1 < n and src[i + 1] == '/':
            j = src.find('\n', i)
            if j < 0:
                j = n
            blank(i, j)
            i = j
        elif c == '/' and i + 1 < n and src[i + 1] == '*':
            depth = 1
            j = i + 2
            while j < n and depth:
                if src.startswith('/*', j):
                    depth += 1
                    j += 2
                elif src.startswith('*/', j):
                    depth -= 1
                    j += 2
                else:
                    j += 1
            blank(i, j)
            i = j
        elif c == '"' or (c in 'br' and re.match(r'(b?r#*"|b")', src[i:i + 12]) and (i == 0 or not (src[i - 1].isalnum() or src[i - 1] == '_'))):
            m = re.match(r'(b?)(r(#*))?"', src[i:i + 12])
            if m is None:
                i += 1
                continue
            start = i
            j = i + m.end()
            if m.group(2):  # raw
                term = '"' + m.group(3)
                k = src.find(term, j)
                if k < 0:
                    raise ScanError('unterminated raw string')
                j = k + len(term)
            else:
                while j < n and src[j] != '"':
                    j += 2 if src[j] == '\\' else 1
                j += 1
            # keep the quotes, blank the inside
            blank(start + m.end(), j - 1 if not m.group(2) else j - len(m.group(3)) - 1)
            i = j
        elif c == "'":
            # char literal or lifetime
            m = re.match(r"'(\\x[0-9a-fA-F]{2}|\\u\{[0-9a-fA-F_]+\}|\\.|[^\\'])'", src[i:i + 14])
            if m:
                blank(i + 1, i + m.end() - 1)
                i += m.end()
            else:
                i += 1
        elif c == 'b' and i + 1 < n and src[i + 1] == "'" and (i == 0 or not (src[i - 1].isalnum() or src[i - 1] == '_')):
            m = re.match(r"b'(\\x[0-9a-fA-F]{2}|\\.|[^\\'])'", src[i:i + 8])
            if m:
                blank(i + 2, i + m.end() - 1)
                i += m.end()
            else:
                i += 1
        else:
            i += 1
    return ''.join(out)


def match_close(m: str, i: int) -> int:
    """m = masked text, m[i] is an opening bracket; returns index of the matching closer."""
    pairs = {'(': ')', '[': ']', '{': '}'}
    stack = []
    n = len(m)
    while i < n:
        c = m[i]
        if c in pairs:
            stack.append(pairs[c])
        elif c in ')]}':
            if not stack or stack[-1] != c:
                raise ScanError('unbalanced bracket at %d' % i)
            stack.pop()
            if not stack:
                return i
        i += 1
    raise ScanError('unterminated bracket')


@dataclass
class Item:
    kind: str            # fn struct enum impl mod trait type const static use macro other
    name: str            # fn/struct/... name; for impl the normalised header ("impl Appender")
    start: int           # offset of the first byte of the item *after* attributes/docs
    attr_start: int      # offset where its attributes/docs start
    header_end: int      # offset of '{' or ';' that ends the header
    end: int             # offset one past the item
    body: tuple = None   # (lo, hi) offsets of the inside of {...} or None
    attrs: list = field(default_factory=list)


_KW = re.compile(r'\b(fn|struct|enum|union|impl|mod|trait|type|const|static|use|macro_rules|extern)\b')


def _norm(s: str) -> str:
    return re.sub(r'\s+', ' ', s).strip()


def _impl_name(header: str) -> str:
    h = _norm(header)
    h = re.sub(r'\bwhere\b.*$', '', h).strip()
    return h


def items(src: str, lo: int = 0, hi: int = None, m: str = None):
    if m is None:
        m = mask(src)
    if hi is None:
        hi = len(src)
    res = []
    i = lo
    while i < hi:
        # skip whitespace
        while i < hi and m[i].isspace():
            i += 1
        if i >= hi:
            break
        attr_start = i
        attrs = []
        # attributes (comments are already blank in m, so doc comments vanish as whitespace)
        while True:
            while i < hi and m[i].isspace():
                i += 1
            if i < hi and m[i] == '#' and (m[i + 1] == '[' or (m[i + 1] == '!' and m[i + 2] == '[')):
                j = m.index('[', i)
                k = match_close(m, j)
                attrs.append(src[i:k + 1])
                i = k + 1
            else:
                break
        if i >= hi:
            break
        start = i
        # header: up to '{' or ';' at bracket depth 0
        j = i
        while j < hi:
            c = m[j]
            if c in '([':
                j = match_close(m, j) + 1
                continue
            if c == '<':
                pass
            if c == '{' or c == ';':
                break
            j += 1
        if j >= hi:
            # trailing tokens (e.g. a tail expression) – not an item
            break
        header = m[start:j]
        kw = _KW.search(header)
        kind = 'other'
        name = ''
        if kw:
            k = kw.group(1)
            rest = header[kw.end():]
            if k == 'impl':
                kind = 'impl'
                name = _impl_name(src[start + kw.start():j])
            elif k == 'macro_rules':
                kind = 'macro'
                mm = re.match(r'\s*!\s*(\w+)', rest)
                name = mm.group(1) if mm else ''
            elif k == 'extern':
                kind = 'extern'
                # `extern crate x;` or `extern "C" fn` – look for fn
                kw2 = re.search(r'\bfn\s+(\w+)', rest)
                if kw2:
                    kind, name = 'fn', kw2.group(1)
            elif k == 'const':
                # const fn / const NAME
                kw2 = re.match(r'\s*(?:unsafe\s+)?fn\s+(\w+)', rest)
                if kw2:
                    kind, name = 'fn', kw2.group(1)
                else:
                    kind = 'const'
                    mm = re.match(r'\s*(\w+)', rest)
                    name = mm.group(1) if mm else ''
            else:
                kind = {'union': 'struct'}.get(k, k)
                mm = re.match(r'\s*(?:mut\s+)?(\w+)', rest)
                name = mm.group(1) if mm else ''
                # `unsafe impl`, `pub(crate) fn` are handled by the keyword search itself
        if m[j] == '{':
            k = match_close(m, j)
            end = k + 1
            body = (j + 1, k)
            # `struct X {..}` has no trailing ';'.  A `static X: T = Lazy::new(|| {..});` item: the
            # header search stopped at the closure's '{'; extend to the terminating ';'
            if kind in ('static', 'const', 'type', 'use', 'other') :
                jj = end
                while jj < hi:
                    c = m[jj]
                    if c in '([{':
                        jj = match_close(m, jj) + 1
                        continue
                    if c == ';':
                        break
                    jj += 1
                end = jj + 1
        else:
            end = j + 1
            body = None
        res.append(Item(kind, name, start, attr_start, j, end, body, attrs))
        i = end
    return res


def find_item(src: str, path, m: str = None, lo: int = 0, hi: int = None, cfg=None) -> Item:
    """path: list of segments. A segment is `name`, `kind name` (e.g. `struct Appender`,
    `mod env_util`) or an impl header (`impl Appender`, `impl<'a> LogFile<'a>`,
    `impl encode::Write for AnsiWriter<W>`). An optional `#k` suffix selects the k-th match (1-based)."""
    if m is None:
        m = mask(src)
    if hi is None:
        hi = len(src)
    seg = _norm(path[0])
    nth = 1
    mm = re.match(r'^(.*)#(\d+)$', seg)
    if mm:
        seg, nth = mm.group(1).strip(), int(mm.group(2))
    cands = []
    for it in items(src, lo, hi, m):
        if cfg is not None and not cfg_enabled(it.attrs, cfg):
            continue
        if seg.startswith('impl'):
            if it.kind == 'impl' and _norm(it.name).replace(' ', '') == seg.replace(' ', ''):
                cands.append(it)
        else:
            parts = seg.split(' ')
            if len(parts) == 2:
                if it.kind == parts[0] and it.name == parts[1]:
                    cands.append(it)
            elif it.name == seg and it.kind != 'impl' and it.kind != 'use':
                cands.append(it)
    if len(cands) < nth:
        raise ScanError('anchor not found: %r (%d candidates)' % (path[0], len(cands)))
    if len(cands) > 1 and not mm:
        raise ScanError('anchor ambiguous: %r (%d candidates)' % (path[0], len(cands)))
    it = cands[nth - 1]
    if len(path) == 1:
        return it
    if it.body is None:
        raise ScanError('anchor %r has no body' % path[0])
    return find_item(src, path[1:], m, it.body[0], it.body[1], cfg)


# ---------------------------------------------------------------- cfg evaluation (E3)

def _cfg_eval(expr: str, cfg) -> bool:
    expr = expr.strip()
    mm = re.match(r'^(all|any|not)\s*\((.*)\)$', expr, re.S)
    if mm:
        parts = _split_top(mm.group(2))
        vals = [_cfg_eval(p, cfg) for p in parts if p.strip()]
        if mm.group(1) == 'all':
            return all(vals)
        if mm.group(1) == 'any':
            return any(vals)
        return not vals[0]
    mm = re.match(r'^feature\s*=\s*"([^"]*)"$', expr)
    if mm:
        return mm.group(1) in cfg['features']
    mm = re.match(r'^(\w+)\s*=\s*"([^"]*)"$', expr)
    if mm:
        return cfg.get(mm.group(1)) == mm.group(2)
    return expr in cfg['flags']


def _split_top(s: str):
    parts, depth, cur = [], 0, ''
    for ch in s:
        if ch == '(':
            depth += 1
        if ch == ')':
            depth -= 1
        if ch == ',' and depth == 0:
            parts.append(cur)
            cur = ''
        else:
            cur += ch
    parts.append(cur)
    return parts


def cfg_enabled(attrs, cfg) -> bool:
    for a in attrs:
        mm = re.match(r'^#\s*\[\s*cfg\s*\((.*)\)\s*\]$', a, re.S)
        if mm and not _cfg_eval(mm.group(1), cfg):
            return False
    return True


# ---------------------------------------------------------------- loops

@dataclass
class Loop:
    kind: str         # for / while / loop
    start: int        # offset of the keyword (or of the label if there is one)
    kw: int           # offset of the keyword
    body_open: int    # offset of '{'
    body_close: int   # offset of matching '}'
    in_kw: int = -1   # for `for`: offset of the ` in ` keyword


_LOOPKW = re.compile(r'\b(for|while|loop)\b')


def loops(src: str, lo: int, hi: int, m: str = None):
    if m is None:
        m = mask(src)
    res = []
    for mm in _LOOPKW.finditer(m, lo, hi):
        kw = mm.start()
        kind = mm.group(1)
        # `for<'a>` higher-ranked bounds and `impl X for Y` cannot occur inside a function body
        # except in nested items; reject `for` not followed by a pattern + `in`.
        j = mm.end()
        in_kw = -1
        if kind == 'for':
            # find ` in ` at depth 0 before the body '{'
            k = j
            found = False
            while k < hi:
                c = m[k]
                if c in '([':
                    k = match_close(m, k) + 1
                    continue
                if c == '{' or c == ';':
                    break
                if re.match(r'\bin\b', m[k:k + 3]) and (m[k - 1].isspace() or m[k - 1] in ')]') and (k + 2 >= hi or not (m[k + 2].isalnum() or m[k + 2] == '_')):
                    found = True
                    in_kw = k
                    break
                k += 1
            if not found:
                continue
            j = in_kw + 2
        # body '{' = first '{' at depth 0
        k = j
        while k < hi:
            c = m[k]
            if c in '([':
                k = match_close(m, k) + 1
                continue
            if c == '{':
                break
            if c == ';':
                k = -1
                break
            k += 1
        if k < 0 or k >= hi:
            continue
        close = match_close(m, k)
        # optional label  'a:
        start = kw
        lab = re.search(r"'\w+\s*:\s*$", m[max(lo, kw - 40):kw])
        if lab:
            start = max(lo, kw - 40) + lab.start()
        res.append(Loop(kind, start, kw, k, close, in_kw))
    return res


# ---------------------------------------------------------------- E3 helpers

def strip_attrs_and_docs(txt: str, cfg=None) -> str:
    """Remove outer attributes (#[...]) and comments from an item's text. If `cfg` is given, items /
    fields / variants / statements whose #[cfg(..)] evaluates to false are removed together with the
    element they decorate (up to the next ',' or ';' or closing brace at the same depth)."""
    m = mask(txt)
    out = []
    i = 0
    n = len(txt)
    while i < n:
        if m[i] == '#' and i + 1 < n and (m[i + 1] == '[' or (m[i + 1] == '!' and i + 2 < n and m[i + 2] == '[')):
            j = m.index('[', i)
            k = match_close(m, j)
            attr = txt[i:k + 1]
            i = k + 1
            if cfg is not None and not cfg_enabled([attr], cfg):
                # drop the decorated element
                while i < n and m[i].isspace():
                    i += 1
                # skip further attributes
                while i < n and m[i] == '#':
                    j = m.index('[', i)
                    i = match_close(m, j) + 1
                    while i < n and m[i].isspace():
                        i += 1
                while i < n:
                    c = m[i]
                    if c in '([{':
                        i = match_close(m, i) + 1
                        if c == '{':
                            # a block ends an item/statement unless followed by ',' / ';'
                            jj = i
                            while jj < n and m[jj] in ' \t':
                                jj += 1
                            if jj < n and m[jj] in ',;':
                                i = jj + 1
                            break
                        continue
                    if c in ',;':
                        i += 1
                        break
                    if c in ')]}':
                        break
                    i += 1
            continue
        # comments: masked to blanks but present in txt
        if txt[i] == '/' and m[i] == ' ':
            # inside a comment: copy nothing until mask shows non-blank or newline
            j = i
            while j < n and m[j] == ' ' and txt[j] != '\n':
                j += 1
            # only drop if this really was a comment start
            if txt.startswith('//', i) or txt.startswith('/*', i):
                # for block comments spanning lines continue while masked
                if txt.startswith('/*', i):
                    depth = 0
                    j = i
                    while j < n:
                        if txt.startswith('/*', j):
                            depth += 1
                            j += 2
                        elif txt.startswith('*/', j):
                            depth -= 1
                            j += 2
                            if depth == 0:
                                break
                        else:
                            j += 1
                    out.append('\n' * txt[i:j].count('\n'))
                i = j
                continue
        out.append(txt[i])
        i += 1
    return ''.join(out)


def all_fns(src: str, m: str = None, lo: int = 0, hi: int = None, acc=None):
    """every fn item with a body, at any nesting depth of modules / impls / traits"""
    if m is None:
        m = mask(src)
    if acc is None:
        acc = []
    for it in items(src, lo, hi if hi is not None else len(src), m):
        if it.kind == 'fn' and it.body is not None:
            acc.append(it)
        elif it.kind in ('impl', 'mod', 'trait') and it.body is not None:
            all_fns(src, m, it.body[0], it.body[1], acc)
    return acc


def split_args(txt: str):
    """split a call's argument text at top-level commas"""
    m = mask(txt)
    parts, depth, cur = [], 0, ''
    for ch_m, ch in zip(m, txt):
        if ch_m in '([{':
            depth += 1
        elif ch_m in ')]}':
            depth -= 1
        if ch_m == ',' and depth == 0:
            parts.append(cur)
            cur = ''
        else:
            cur += ch
    if cur.strip():
        parts.append(cur)
    return [p.strip() for p in parts]


def inline_helper(src: str, target: Item, helper: Item):
    """Rule R2: replace every call of `helper` inside the body of `target` by a block that binds the parameters and
    contains the helper's body. Only for helpers whose body cannot leave early (no `return`, no `?`) and whose
    parameters are plain `name: Type` (plus an optional `&self` / `&mut self` receiver, calls written `self.f(..)`).
    Returns (new_src, number_of_call_sites) or raises ScanError when the helper is outside this subset."""
    m = mask(src)
    hb = m[helper.body[0]:helper.body[1]]
    if re.search(r'\breturn\b', hb):
        raise ScanError('helper %s can leave early (return): not inlinable' % helper.name)
    try_mode = '?' in hb
    header = src[helper.start:helper.header_end]
    hm = m[helper.start:helper.header_end]

    def ret_type(item):
        h = src[item.start:item.header_end]
        k = h.rfind('->')
        if k < 0:
            return ''
        t = re.split(r'\bwhere\b', h[k + 2:])[0]
        return re.sub(r'\s+', '', t)
    tail_ok = None
    if try_mode:
        # R2 for helpers that use `?`: only when the helper returns the caller's own Result type (so a `?` inside the inlined text
        # leaves the caller exactly as `helper(..)?` did), every call is written `helper(..)?`, and the helper ends in `Ok(EXPR)`
        def err_family(t):
            # `io::Result<T>` / `anyhow::Result<T>` (one-parameter aliases): the alias path; `Result<T, E>`: the text of E
            mm = re.match(r'^((?:\w+::)+)Result<', t)
            if mm:
                return mm.group(1)
            mm = re.match(r'^Result<(.*)>$', t)
            if mm:
                parts = split_args(mm.group(1))
                if len(parts) == 2:
                    return 'E=' + parts[1].strip()
            return None
        if err_family(ret_type(helper)) is None or err_family(ret_type(helper)) != err_family(ret_type(target)):
            raise ScanError('helper %s uses `?` and its error type is not textually the caller\'s: not inlinable' % helper.name)
        b0, b1 = helper.body
        depth = 0
        last = b0
        for k in range(b0, b1):
            c = m[k]
            if c in '([{':
                depth += 1
            elif c in ')]}':
                depth -= 1
            elif c == ';' and depth == 0:
                last = k + 1
        tail = src[last:b1].strip()
        tm = m[last:b1].strip()
        if not (tm.startswith('Ok') and tm.endswith(')')):
            raise ScanError('helper %s uses `?` and does not end in Ok(..): not inlinable' % helper.name)
        o = tm.index('(')
        if match_close(tm, o) != len(tm) - 1 or tm[2:o].strip():
            raise ScanError('helper %s uses `?` and does not end in Ok(..): not inlinable' % helper.name)
        tail_ok = (src[b0:last], tail[tail.index('(') + 1:-1])
    po = hm.index('(')
    pc = match_close(hm, po)
    params = split_args(header[po + 1:pc])
    has_self = False
    binds = []
    for prm in params:
        if re.match(r'^(&\s*(mut\s+)?)?(mut\s+)?self$', prm.replace("'_ ", '')):
            has_self = True
            continue
        mm = re.match(r'^(mut\s+)?(\w+)\s*:\s*(.+)$', prm, re.S)
        if not mm:
            raise ScanError('helper %s: parameter %r is not `name: Type`' % (helper.name, prm))
        binds.append((mm.group(1) or '', mm.group(2), mm.group(3).strip()))
    # recursion: a call of the helper itself, i.e. with the receiver form of its own kind (`x.name(..)` on another value is a
    # different function that merely shares the name)
    for mt in re.finditer(r'(?<![\w.])((?:self\s*\.\s*)|(?:(?:Self|\w+)\s*::\s*))?%s\s*\(' % re.escape(helper.name), hb):
        recv = (mt.group(1) or '').replace(' ', '')
        if has_self == recv.startswith('self.') or recv.startswith('Self::'):
            raise ScanError('helper %s is recursive' % helper.name)
    body = src[helper.body[0]:helper.body[1]]
    lo, hi = target.body
    out = []
    pos = lo
    n = 0
    pat = re.compile(r'(?<![\w.])((?:self\s*\.\s*)|(?:(?:Self|\w+)\s*::\s*))?%s\s*\(' % re.escape(helper.name))
    for mt in pat.finditer(m, lo, hi):
        if mt.start() < pos:
            continue
        recv = (mt.group(1) or '').replace(' ', '')
        if has_self != recv.startswith('self.'):
            continue
        op = mt.end() - 1
        cl = match_close(m, op)
        args = split_args(src[op + 1:cl])
        if len(args) != len(binds):
            raise ScanError('helper %s: call with %d arguments, %d parameters' % (helper.name, len(args), len(binds)))
        end = cl + 1
        if try_mode:
            q = end
            while q < hi and m[q].isspace():
                q += 1
            if q < hi and m[q] == '?':
                end = q + 1
                inner = tail_ok[0] + ' ' + (tail_ok[1] if tail_ok[1].strip() else '()')
            elif (q >= hi or (q >= hi - 1 and m[q] == '}')) and ret_type(helper) == ret_type(target):
                # the call is the caller's tail expression and both return the very same type: the helper's text, `?` and final
                # `Ok(..)` included, does in the caller what it did in the helper
                inner = body
            else:
                raise ScanError('helper %s uses `?` but a call site is neither `%s(..)?` nor the caller\'s tail expression' % (helper.name, helper.name))
        else:
            inner = body
        block = '{ ' + ''.join('let %s%s: %s = %s; ' % (mu, nm, ty, a) for (mu, nm, ty), a in zip(binds, args)) + '{' + inner + '} }'
        out.append(src[pos:mt.start()])
        out.append(block)
        pos = end
        n += 1
    if n == 0:
        raise ScanError('helper %s: no call site found in %s' % (helper.name, target.name))
    out.append(src[pos:])
    return src[:lo] + ''.join(out), n


def blank_cfg(src: str, cfg) -> str:
    """E3 for function bodies: every `#[cfg(..)]` attribute is evaluated for the default feature set; a disabled one is
    blanked together with the statement / item / field it decorates, an enabled one is blanked alone. Length and line
    structure are preserved (only spaces are written), so offsets and line numbers still refer to /repo."""
    m = mask(src)
    out = list(src)
    n = len(src)

    def blank(a, b):
        for k in range(a, b):
            if out[k] != '\n':
                out[k] = ' '
    i = 0
    while i < n:
        if m[i] == '#' and i + 1 < n and m[i + 1] == '[':
            k = match_close(m, i + 1)
            attr = src[i:k + 1]
            mm = re.match(r'^#\s*\[\s*cfg\s*\((.*)\)\s*\]$', attr, re.S)
            if not mm:
                i = k + 1
                continue
            enabled = _cfg_eval(mm.group(1), cfg)
            blank(i, k + 1)
            j = k + 1
            if not enabled:
                # skip whitespace and further attributes, then the decorated element
                while j < n and (m[j].isspace() or m[j] == '#'):
                    if m[j] == '#':
                        j = match_close(m, m.index('[', j)) + 1
                    else:
                        j += 1
                start = j
                blank(k + 1, start)     # further attributes of the disabled element go with it
                is_item = bool(re.match(r'(pub(\s*\([^)]*\))?\s+)?(unsafe\s+|async\s+|const\s+|extern\s+"[^"]*"\s+)*(fn|impl|trait|mod)\b', m[start:start + 80]))
                while j < n:
                    c = m[j]
                    if c in '([{':
                        j = match_close(m, j) + 1
                        if c == '{':
                            jj = j
                            while jj < n and m[jj] in ' \t':
                                jj += 1
                            if jj < n and m[jj] in ',;':
                                j = jj + 1
                                break
                            # a block ends an item; for `let x = { .. };` the ';' follows and was handled above
                            if not re.match(r'\s*let\b', m[start:start + 6]):
                                break
                        continue
                    if c == ',' and is_item:
                        # the comma of a `where` clause / generic list of an item header is not the end of the item
                        j += 1
                        continue
                    if c in ',;':
                        j += 1
                        break
                    if c in ')]}':
                        break
                    j += 1
                blank(start, j)
            i = j
        else:
            i += 1
    return ''.join(out)


if __name__ == '__main__':
    import sys
    src = open(sys.argv[1]).read()
    path = [p.strip() for p in sys.argv[2].split('::')] if len(sys.argv) > 2 else None
    if path:
        # allow '::' inside impl headers by using ' :: ' as the separator
        path = [p.strip() for p in sys.argv[2].split(' :: ')]
        it = find_item(src, path)
        print(src[it.start:it.end])
    else:
        for it in items(src):
            print(it.kind, it.name, it.start, it.end)
