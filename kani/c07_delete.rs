//@file src/append/rolling_file/policy/compound/roll/delete.rs
//@harness c07_delete_roller strength=bounded bound="remove_file succeeding (the error path builds an anyhow::Error, which CBMC does not finish)" timeout=600 replay=no
#[cfg(kani)]
#[allow(dead_code, unused)]
mod __verif_c07_del {
    use super::*;
    static mut CALLS: u8 = 0;
    fn m_rm<P: AsRef<Path>>(p: P) -> std::io::Result<()> {
        unsafe { CALLS += 1; }
        let b = p.as_ref().as_os_str().as_encoded_bytes();
        assert!(b.len() == 1 && b[0] == b'f', "roll#post only the rolled file is removed");
        Ok(())
    }
    #[kani::proof]
    #[kani::unwind(4)]
    #[kani::stub(std::fs::remove_file, m_rm)]
    fn c07_delete_roller() {
        let roller = DeleteRoller::new();
        let res = Roll::roll(&roller, Path::new("f"));
        assert!(unsafe { CALLS } == 1, "roll#post exactly one remove_file");
        assert!(res.is_ok(), "roll#post Ok when the removal succeeds");
        std::mem::forget(res);
    }
}
