//@file src/lib.rs
//@harness c03_log_fanout unwind=5 strength=bounded bound="3 attachments (any indices, repeats allowed) over 3 appenders each failing or not; all thresholds x levels" timeout=1800 body=body_fanout
//@harness c03_append_chain_twin unwind=5 strength=bounded bound="filter chains of length <= 3 over {Accept, Neutral, Reject}; appender failing or not" timeout=600 body=body_chain
// ConfiguredLogger::log: threshold then fan-out with error isolation; Appender::append: chain interpreter (twin of the Verus unit).
#[cfg(any(kani, verif_replay))]
#[allow(dead_code, unused)]
mod __verif_c03 {
    use super::*;
    use crate::__verif_rt::*;
    use crate::{__verif_ob, __verif_cover};
    use std::sync::atomic::{AtomicUsize, Ordering};

    static CNT: [AtomicUsize; 3] = [AtomicUsize::new(0), AtomicUsize::new(0), AtomicUsize::new(0)];
    static FCNT: [AtomicUsize; 3] = [AtomicUsize::new(0), AtomicUsize::new(0), AtomicUsize::new(0)];
    static ORDER: AtomicUsize = AtomicUsize::new(0);
    struct Cap(usize, bool);
    impl std::fmt::Debug for Cap { fn fmt(&self, _f: &mut std::fmt::Formatter<'_>) -> std::fmt::Result { Ok(()) } }
    impl Append for Cap {
        fn append(&self, _r: &Record) -> anyhow::Result<()> {
            CNT[self.0].fetch_add(1, Ordering::Relaxed);
            // order trace: base-4 digits of the appender indices in call order
            ORDER.store(ORDER.load(Ordering::Relaxed) * 4 + self.0 + 1, Ordering::Relaxed);
            // an opaque, never-dropped error token (constructing a real anyhow::Error does not terminate in CBMC)
            if self.1 { Err(unsafe { std::mem::transmute::<usize, anyhow::Error>(0x1000 + self.0 * 8) }) } else { Ok(()) }
        }
        fn flush(&self) {}
    }
    struct F(usize, u8);
    impl std::fmt::Debug for F { fn fmt(&self, _f: &mut std::fmt::Formatter<'_>) -> std::fmt::Result { Ok(()) } }
    impl Filter for F {
        fn filter(&self, _r: &Record) -> filter::Response {
            FCNT[self.0].fetch_add(1, Ordering::Relaxed);
            match self.1 { 0 => filter::Response::Accept, 1 => filter::Response::Neutral, _ => filter::Response::Reject }
        }
    }
    fn any_filter(src: &mut Src) -> LevelFilter {
        let lf = src.u8(); assume(lf <= 5);
        match lf {0=>LevelFilter::Off,1=>LevelFilter::Error,2=>LevelFilter::Warn,3=>LevelFilter::Info,4=>LevelFilter::Debug,_=>LevelFilter::Trace}
    }
    fn any_level(src: &mut Src) -> Level {
        let lv = src.u8(); assume(lv >= 1 && lv <= 5);
        match lv {1=>Level::Error,2=>Level::Warn,3=>Level::Info,4=>Level::Debug,_=>Level::Trace}
    }
    fn reset() {
        let mut k = 0; while k < 3 { CNT[k].store(0, Ordering::Relaxed); FCNT[k].store(0, Ordering::Relaxed); k += 1; }
        ORDER.store(0, Ordering::Relaxed);
    }

    pub(crate) fn body_fanout(src: &mut Src) {
        reset();
        let idx = [src.u8() as usize, src.u8() as usize, src.u8() as usize];
        assume(idx[0] < 3 && idx[1] < 3 && idx[2] < 3);
        let fail = [src.bool(), src.bool(), src.bool()];
        let lf = any_filter(src); let lv = any_level(src);
        let node = ConfiguredLogger { level: lf, appenders: vec![idx[0], idx[1], idx[2]], children: FnvHashMap::default() };
        let apps = [Appender { appender: Box::new(Cap(0, fail[0])), filters: vec![] }, Appender { appender: Box::new(Cap(1, fail[1])), filters: vec![] }, Appender { appender: Box::new(Cap(2, fail[2])), filters: vec![] }];
        let rec = Record::builder().level(lv).build();
        let r = node.log(&rec, &apps);
        let admitted = (lv as usize) <= (lf as usize);
        let mut nfail = 0; let mut j = 0; while j < 3 { if fail[idx[j]] { nfail += 1; } j += 1; }
        let nerr = match &r { Ok(()) => 0, Err(v) => v.len() };
        __verif_cover!("admitted record, a failing appender before a healthy one", admitted && fail[idx[0]] && !fail[idx[1]]);
        __verif_cover!("record below the threshold", !admitted);
        __verif_ob!("log#post one collected error per failing delivery, none when not admitted", nerr == if admitted { nfail } else { 0 });
        __verif_ob!("log#post Ok iff no error", r.is_ok() == (nerr == 0));
        let mut k = 0; while k < 3 {
            let mut e = 0; let mut j = 0; while j < 3 { if idx[j] == k { e += 1; } j += 1; }
            __verif_ob!("log#post every attachment delivers exactly once iff admitted; unattached appenders see nothing", CNT[k].load(Ordering::Relaxed) == if admitted { e } else { 0 });
            k += 1; }
        std::mem::forget(r);
        std::mem::forget(apps);
    }

    pub(crate) fn body_chain(src: &mut Src) {
        reset();
        let n = src.u8() as usize; assume(n <= 3);
        let resp = [src.u8(), src.u8(), src.u8()];
        assume(resp[0] <= 2 && resp[1] <= 2 && resp[2] <= 2);
        let fails = src.bool();
        let mut filters: Vec<Box<dyn Filter>> = Vec::new();
        let mut i = 0; while i < n { filters.push(Box::new(F(i, resp[i]))); i += 1; }
        let app = Appender { appender: Box::new(Cap(0, fails)), filters };
        let rec = Record::builder().level(Level::Info).build();
        let r = app.append(&rec);
        // statement: first Accept delivers, first Reject drops, all Neutral delivers; later filters are not consulted
        let mut admitted = true; let mut consulted = n; let mut i = 0;
        while i < n { if resp[i] == 0 { consulted = i + 1; break; } if resp[i] == 2 { admitted = false; consulted = i + 1; break; } i += 1; }
        __verif_cover!("Accept before a Reject", n == 2 && resp[0] == 0 && resp[1] == 2);
        __verif_cover!("Neutral then Reject", n == 2 && resp[0] == 1 && resp[1] == 2);
        __verif_ob!("append#post delivered exactly once iff the chain admits", CNT[0].load(Ordering::Relaxed) == if admitted { 1 } else { 0 });
        __verif_ob!("append#post result is the appender's result when admitted, Ok when rejected", r.is_err() == (admitted && fails));
        let mut i = 0; while i < 3 {
            __verif_ob!("append#post filters consulted in order, each at most once, none after the deciding one", FCNT[i].load(Ordering::Relaxed) == if i < consulted { 1 } else { 0 });
            i += 1; }
        std::mem::forget(r);
        std::mem::forget(app);
    }

    #[cfg(kani)]
    #[kani::proof]
    #[kani::unwind(5)]
    fn c03_log_fanout() { let mut src = Src::new(); body_fanout(&mut src); }

    #[cfg(kani)]
    #[kani::proof]
    #[kani::unwind(5)]
    fn c03_append_chain_twin() { let mut src = Src::new(); body_chain(&mut src); }
}
