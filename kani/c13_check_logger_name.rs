//@file src/config/runtime.rs
//@harness c13_check_logger_name_twin unwind=8 strength=bounded bound="names of <= 5 characters over {a, :}"
// Kani twin of the Verus contract of check_logger_name: same oracle (the statement's predicate),
// evaluated by a loop over the bytes; provides the counterexample Verus cannot.
#[cfg(any(kani, verif_replay))]
#[allow(dead_code, unused)]
mod __verif_c13_cln {
    use super::*;
    use crate::__verif_rt::*;
    use crate::{__verif_ob, __verif_cover};

    pub(crate) fn body(src: &mut Src) {
        let n = src.u8() as usize;
        assume(n <= 5);
        let mut chars = [b'a'; 5];
        let mut i = 0;
        while i < 5 {
            let c = src.bool();
            chars[i] = if c { b':' } else { b'a' };
            i += 1;
        }
        let s = unsafe { std::str::from_utf8_unchecked(&chars[..n]) };
        let r = check_logger_name(s);
        // oracle from the statement: non-empty, every colon has exactly one colon neighbour, last is not a colon
        let mut wf = n > 0;
        let mut i = 0;
        while i < n {
            if chars[i] == b':' {
                let l = i > 0 && chars[i - 1] == b':';
                let rr = i + 1 < n && chars[i + 1] == b':';
                if l == rr { wf = false; }
            }
            i += 1;
        }
        if n > 0 && chars[n - 1] == b':' { wf = false; }
        __verif_cover!("accepted name with a colon pair", wf && n >= 4);
        __verif_cover!("rejected name", !wf && n == 5);
        __verif_ob!("check_logger_name#post[0] Ok <=> well-formed", r.is_ok() == wf);
        std::mem::forget(r);
    }

    #[cfg(kani)]
    #[kani::proof]
    #[kani::unwind(8)]
    fn c13_check_logger_name_twin() {
        let mut src = Src::new();
        body(&mut src);
    }
}
