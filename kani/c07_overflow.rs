//@file src/append/rolling_file/policy/compound/roll/fixed_window.rs
//@harness c07_rotate_index_arithmetic unwind=16 strength=bounded bound="the single instance base = u32::MAX, count = 1; moves and directory creation replaced by no-ops" timeout=1200 body=body
//@harness c07_rotate_top_of_range unwind=16 strength=bounded bound="the single instance base = u32::MAX - 2, count = 3 (window ending at u32::MAX); moves recorded by a model, directory creation a no-op" timeout=1800 replay=no
// "for all bases and counts": the index arithmetic of rotate() (base + count - 1, i + 1) must not overflow / panic.
#[cfg(any(kani, verif_replay))]
#[allow(dead_code, unused)]
mod __verif_c07_ovf {
    use super::*;
    use crate::__verif_rt::*;
    use crate::{__verif_ob, __verif_cover};
    pub(crate) fn noop_move<P: AsRef<Path>, Q: AsRef<Path>>(_s: P, _d: Q) -> io::Result<()> { Ok(()) }
    pub(crate) fn noop_mkdir<P: AsRef<Path>>(_p: P) -> io::Result<()> { Ok(()) }
    pub(crate) fn body(src: &mut Src) {
        // one concrete instance (symbolic bases make `to_string` + `replace` intractable for CBMC); `pad` only keeps the replay interface uniform
        let pad = src.bool();
        let base = u32::MAX;
        let count = 1;
        let r = rotate("{}".to_owned(), Compression::None, base, count, PathBuf::from("f"));
        __verif_cover!("reached", true);
        __verif_ob!("rotate#post Ok (no index may overflow for any base and count)", r.is_ok());
        std::mem::forget(r);
    }
    // ---- a window that ends at u32::MAX: every slot is still shifted (base+j-1 -> base+j, from the top down), then the rolled file becomes index base
    #[cfg(kani)] static mut CALLS: usize = 0;
    #[cfg(kani)] static mut LAST: [(u8, u8); 4] = [(0, 0); 4];
    #[cfg(kani)]
    fn rec_move<P: AsRef<Path>, Q: AsRef<Path>>(s: P, d: Q) -> io::Result<()> {
        let sb = s.as_ref().as_os_str().as_encoded_bytes(); let db = d.as_ref().as_os_str().as_encoded_bytes();
        unsafe { if CALLS < 4 { LAST[CALLS] = (sb[sb.len() - 1], db[db.len() - 1]); } CALLS += 1; }
        Ok(())
    }
    #[cfg(kani)]
    #[kani::proof]
    #[kani::unwind(16)]
    #[kani::stub(move_file, rec_move)]
    #[kani::stub(std::fs::create_dir_all, noop_mkdir)]
    fn c07_rotate_top_of_range() {
        unsafe { CALLS = 0; }
        let r = rotate("{}".to_owned(), Compression::None, u32::MAX - 2, 3, PathBuf::from("f"));
        let (n, l) = unsafe { (CALLS, LAST) };
        assert!(r.is_ok(), "rotate#post Ok (no index may overflow for any base and count)");
        // 4294967294 -> 4294967295, then 4294967293 -> 4294967294, then the rolled file -> 4294967293
        assert!(n == 3, "rotate#post a window of count archives is shifted by count - 1 moves plus the move of the rolled file, also when it ends at u32::MAX");
        assert!(l[0] == (b'4', b'5') && l[1] == (b'3', b'4'), "rotate#post archives are shifted from the oldest slot down (base+j-1 -> base+j)");
        assert!(l[2] == (b'f', b'3'), "rotate#post the rolled file becomes index base");
        std::mem::forget(r);
    }
    #[cfg(kani)]
    #[kani::proof]
    #[kani::unwind(16)]
    #[kani::stub(move_file, noop_move)]
    #[kani::stub(std::fs::create_dir_all, noop_mkdir)]
    fn c07_rotate_index_arithmetic() { let mut s = Src::new(); body(&mut s); }
}
