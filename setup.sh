#!/bin/bash
# Offline setup: warm the shared dependency caches used by the Kani and native-replay builds.
# Nothing here is required for correctness (the checks build lazily), it only saves time per check.
set -u
cd "$(dirname "$0")"
export CARGO_NET_OFFLINE=true
CACHE=${VERIF_CACHE:-$HOME/.cache/log4rs-verif}
mkdir -p "$CACHE"
python3 - <<'PY'
import os, sys, shutil, subprocess
sys.path.insert(0, 'tools')
import kx
crate, _ = kx.prepare_crate('setup', [])
tmpl = os.path.join(kx.CACHE, 'kani-template')
env = dict(os.environ, CARGO_NET_OFFLINE='true')
subprocess.run(['cargo', 'kani', '--only-codegen', '--target-dir', tmpl], cwd=crate, env=env, stdout=subprocess.DEVNULL, stderr=subprocess.DEVNULL)
env2 = dict(env, RUSTFLAGS='--cfg verif_replay -Awarnings', CARGO_TARGET_DIR=kx.native_target_dir())
subprocess.run(['cargo', 'test', '--offline', '--lib', '--no-run'], cwd=crate, env=env2, stdout=subprocess.DEVNULL, stderr=subprocess.DEVNULL)
shutil.rmtree(os.path.dirname(crate), ignore_errors=True)
PY
verus --version >/dev/null 2>&1 || { echo "verus not on PATH"; exit 1; }
echo setup done
