#!/usr/bin/env python3
"""seed_matrix.py [seed ...] — run the property check of every seeded change against a scratch copy of /repo with the
change applied (never touches /repo), record which obligations catch it in seeded/<id>/meta.json."""
import json, os, re, shutil, subprocess, sys, concurrent.futures as cf
V = os.path.dirname(os.path.dirname(os.path.abspath(__file__)))
def run(seed):
    pid = seed.split('-')[0]
    d = os.path.join(V, 'seeded', seed)
    tmp = '/tmp/seedrepo/' + seed
    shutil.rmtree(tmp, ignore_errors=True)
    os.makedirs(tmp)
    subprocess.run(['rsync', '-a', '--exclude', 'target', '/repo/', tmp + '/'], check=True)
    ap = subprocess.run(['git', 'apply', os.path.join(d, 'patch.diff')], cwd=tmp, capture_output=True, text=True)
    if ap.returncode != 0:
        res = {'rc': None, 'note': 'patch does not apply to the current /repo HEAD: ' + ap.stderr[:200]}
    else:
        env = dict(os.environ, VERIF_REPO=tmp, VERIF_TAG='-' + seed, VERIF_SCRATCH='/tmp/verif-scratch-seeds')
        p = subprocess.run([os.path.join(V, 'check'), pid, '--tier', os.environ.get('SEED_TIER', 'quick')], cwd=V, env=env, capture_output=True, text=True)
        lines = [l for l in p.stdout.split('\n') if re.match(r'^(VIOLATION|UNDECIDED|OK|KNOWN)', l)]
        res = {'rc': p.returncode, 'lines': [l[:300] for l in lines]}
    shutil.rmtree(tmp, ignore_errors=True)
    shutil.rmtree(os.path.expanduser('~/.cache/log4rs-verif/kani-%s-%s' % (pid, seed)), ignore_errors=True)
    shutil.rmtree(os.path.expanduser('~/.cache/log4rs-verif/native-target-%s' % seed), ignore_errors=True)
    meta = json.load(open(os.path.join(d, 'meta.json')))
    meta['detected_by'] = {'exit_code': res['rc'], 'verdict': {0: 'MISSED (check passes)', 1: 'DETECTED', 2: 'UNDECIDED (exit 2, no alarm)'}.get(res['rc'], 'not run'),
                           'check_output': res.get('lines') or res.get('note'), 'ran': './check %s (VERIF_REPO=scratch copy of /repo with patch.diff applied)' % pid}
    json.dump(meta, open(os.path.join(d, 'meta.json'), 'w'), indent=1)
    return seed, res
if __name__ == '__main__':
    seeds = sys.argv[1:] or sorted(os.listdir(os.path.join(V, 'seeded')))
    with cf.ThreadPoolExecutor(int(os.environ.get('SEED_JOBS', '3'))) as ex:
        for seed, res in ex.map(run, seeds):
            print(seed, res['rc'], (res.get('lines') or [res.get('note')])[:2], flush=True)
