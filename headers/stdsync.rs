// contract header (assumed): std::sync::atomic integers as cells whose content is unknown at every read (no claim about
// other threads or about earlier stores: the weakest contract, so nothing can be proved FROM a counter kept in one).
#[derive(Copy, Clone, PartialEq, Eq, Structural)]
pub enum Ordering { Relaxed, Release, Acquire, AcqRel, SeqCst }
#[verifier::external_body] pub struct AtomicU32 { _p: () }
#[verifier::external_body] pub struct AtomicU64 { _p: () }
#[verifier::external_body] pub struct AtomicUsize { _p: () }
#[verifier::external_body] pub struct AtomicBool { _p: () }
impl AtomicU32 {
    #[verifier::external_body] pub fn new(v: u32) -> AtomicU32 { unimplemented!() }
    #[verifier::external_body] pub fn load(&self, o: Ordering) -> u32 { unimplemented!() }
    #[verifier::external_body] pub fn store(&self, v: u32, o: Ordering) { unimplemented!() }
    #[verifier::external_body] pub fn fetch_add(&self, v: u32, o: Ordering) -> u32 { unimplemented!() }
}
impl AtomicU64 {
    #[verifier::external_body] pub fn new(v: u64) -> AtomicU64 { unimplemented!() }
    #[verifier::external_body] pub fn load(&self, o: Ordering) -> u64 { unimplemented!() }
    #[verifier::external_body] pub fn store(&self, v: u64, o: Ordering) { unimplemented!() }
    #[verifier::external_body] pub fn fetch_add(&self, v: u64, o: Ordering) -> u64 { unimplemented!() }
}
impl AtomicUsize {
    #[verifier::external_body] pub fn new(v: usize) -> AtomicUsize { unimplemented!() }
    #[verifier::external_body] pub fn load(&self, o: Ordering) -> usize { unimplemented!() }
    #[verifier::external_body] pub fn store(&self, v: usize, o: Ordering) { unimplemented!() }
    #[verifier::external_body] pub fn fetch_add(&self, v: usize, o: Ordering) -> usize { unimplemented!() }
}
impl AtomicBool {
    #[verifier::external_body] pub fn new(v: bool) -> AtomicBool { unimplemented!() }
    #[verifier::external_body] pub fn load(&self, o: Ordering) -> bool { unimplemented!() }
    #[verifier::external_body] pub fn store(&self, v: bool, o: Ordering) { unimplemented!() }
    #[verifier::external_body] pub fn swap(&self, v: bool, o: Ordering) -> bool { unimplemented!() }
}
