// contract header (assumed): the parts of std::fs / std::io / std::path that RollingFileAppender::get_writer uses.
// OpenOptions is modelled by the record of its four flags; File by the (flags, path) it was opened with and an
// uninterpreted size; BufWriter by its inner writer and capacity.
pub mod io {
    use vstd::prelude::*;
    #[verifier::external_body]
    pub struct Error { _p: () }
    pub type Result<T> = std::result::Result<T, Error>;
}
#[verifier::external_body] pub struct PathBuf { _p: () }
#[verifier::external_body] pub struct File { _p: () }
#[verifier::external_body] pub struct Metadata { _p: () }
#[verifier::external_body] #[verifier::accept_recursive_types(W)] pub struct BufWriter<W> { _p: std::marker::PhantomData<W> }
pub struct OO { pub write: bool, pub append: bool, pub truncate: bool, pub create: bool }
#[verifier::external_body] pub struct OpenOptions { _p: () }
pub uninterp spec fn oo_view(o: &OpenOptions) -> OO;
pub uninterp spec fn file_opened_with(f: &File) -> (OO, PathBuf);
pub uninterp spec fn file_size(f: &File) -> u64;            // size of the file behind this handle when metadata() is taken
pub uninterp spec fn path_size(p: &PathBuf) -> u64;         // size of whatever is at the path *before* any open (unrelated to file_size)
pub uninterp spec fn meta_len(m: &Metadata) -> u64;
pub uninterp spec fn bw_inner<W>(b: &BufWriter<W>) -> W;
pub uninterp spec fn bw_cap<W>(b: &BufWriter<W>) -> usize;
impl OpenOptions {
    #[verifier::external_body] pub fn new() -> (r: OpenOptions) ensures oo_view(&r) == (OO { write: false, append: false, truncate: false, create: false }) { unimplemented!() }
    #[verifier::external_body] pub fn write(&mut self, b: bool) -> (r: &mut OpenOptions) ensures oo_view(final(self)) == (OO { write: b, ..oo_view(old(self)) }), oo_view(r) == oo_view(final(self)) { unimplemented!() }
    #[verifier::external_body] pub fn append(&mut self, b: bool) -> (r: &mut OpenOptions) ensures oo_view(final(self)) == (OO { append: b, ..oo_view(old(self)) }), oo_view(r) == oo_view(final(self)) { unimplemented!() }
    #[verifier::external_body] pub fn truncate(&mut self, b: bool) -> (r: &mut OpenOptions) ensures oo_view(final(self)) == (OO { truncate: b, ..oo_view(old(self)) }), oo_view(r) == oo_view(final(self)) { unimplemented!() }
    #[verifier::external_body] pub fn create(&mut self, b: bool) -> (r: &mut OpenOptions) ensures oo_view(final(self)) == (OO { create: b, ..oo_view(old(self)) }), oo_view(r) == oo_view(final(self)) { unimplemented!() }
    #[verifier::external_body] pub fn open(&self, p: &PathBuf) -> (r: io::Result<File>) ensures r matches Ok(f) ==> file_opened_with(&f) == (oo_view(self), *p) { unimplemented!() }
}
// write position of a handle; unrelated to the size of the file (POSIX: a handle opened with O_APPEND starts at offset 0 and
// is moved to the end only by each write), so a length taken from it is not the size the accounting needs
pub uninterp spec fn file_pos(f: &File) -> u64;
impl File {
    #[verifier::external_body] pub fn stream_position(&mut self) -> (r: io::Result<u64>) ensures r matches Ok(p) ==> p == file_pos(old(self)), *final(self) == *old(self) { unimplemented!() }
    #[verifier::external_body] pub fn metadata(&self) -> (r: io::Result<Metadata>) ensures r matches Ok(m) ==> meta_len(&m) == file_size(self) { unimplemented!() }
}
impl Metadata {
    #[verifier::external_body] pub fn len(&self) -> (r: u64) ensures r == meta_len(self) { unimplemented!() }
}
impl<W> BufWriter<W> {
    #[verifier::external_body] pub fn with_capacity(cap: usize, inner: W) -> (r: BufWriter<W>) ensures bw_inner(&r) == inner, bw_cap(&r) == cap { unimplemented!() }
    #[verifier::external_body] pub fn new(inner: W) -> (r: BufWriter<W>) ensures bw_inner(&r) == inner, bw_cap(&r) == 8192 { unimplemented!() }
}
pub mod fs {
    use vstd::prelude::*;
    use super::*;
    #[verifier::external_body] pub fn metadata(p: &PathBuf) -> (r: io::Result<Metadata>) ensures r matches Ok(m) ==> meta_len(&m) == path_size(p) { unimplemented!() }
    #[verifier::external_body] pub fn create_dir_all<P>(p: P) -> io::Result<()> { unimplemented!() }
}
