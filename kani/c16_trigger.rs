//@file src/append/rolling_file/policy/compound/trigger/time.rs
//@harness c16_trigger_twin unwind=8 strength=bounded bound="one call of trigger(): scheduled instant and clock reading each one of 5 instants an hour apart (all orderings, incl. an idle gap of several intervals); Local::now, TimeTrigger::new and get_next_time replaced by models over that grid" timeout=1200 replay=no
// Kani twin of the Verus unit c16_trigger (verdict also when a refactoring moves the rescheduling into helpers):
// fires exactly when the clock reading is at or after the scheduled instant; after firing, the schedule held by the
// trigger lies strictly after the clock reading; otherwise it is untouched.
#[cfg(kani)]
#[allow(dead_code, unused)]
mod __verif_c16_trig {
    use super::*;
    use chrono::FixedOffset;
    static mut NOW: usize = 0;
    // a grid of instants one hour apart (concrete, so chrono's calendar arithmetic is constant-folded)
    fn at(k: usize) -> DateTime<Local> {
        let secs = 1_700_000_000i64 + 3600 * (k as i64);
        let naive = chrono::DateTime::from_timestamp(secs, 0).unwrap().naive_utc();
        DateTime::<Local>::from_naive_utc_and_offset(naive, FixedOffset::east_opt(0).unwrap())
    }
    fn idx(d: &DateTime<Local>) -> usize { ((d.timestamp() - 1_700_000_000i64) / 3600) as usize }
    fn m_now() -> DateTime<Local> { at(unsafe { NOW }) }
    // model of get_next_time for Hour(1): the next grid point strictly after its argument
    fn m_next(current: DateTime<Local>, _i: TimeTriggerInterval, _m: bool) -> DateTime<Local> { at(idx(&current) + 1) }
    // model of TimeTrigger::new: schedules from the clock reading at the time it is called
    // never used (max_random_delay is 0 in this harness); keeps the thread-local generator out of the compiled code
    fn m_rng() -> rand::rngs::ThreadRng { unsafe { std::mem::zeroed() } }
    fn m_new(config: TimeTriggerConfig) -> TimeTrigger { TimeTrigger { config, next_roll_time: RwLock::new(at(unsafe { NOW } + 1)) } }
    #[kani::proof]
    #[kani::unwind(8)]
    #[kani::stub(chrono::Local::now, m_now)]
    #[kani::stub(TimeTrigger::new, m_new)]
    #[kani::stub(TimeTrigger::get_next_time, m_next)]
    #[kani::stub(rand::thread_rng, m_rng)]
    fn c16_trigger_twin() {
        let now: usize = kani::any(); kani::assume(now <= 4);
        let sched: usize = kani::any(); kani::assume(sched <= 4);
        unsafe { NOW = now; }
        let t = TimeTrigger { config: TimeTriggerConfig { interval: TimeTriggerInterval::Hour(1), modulate: false, max_random_delay: 0 }, next_roll_time: RwLock::new(at(sched)) };
        let mut w = None;
        let lf = LogFile { writer: &mut w, path: std::path::Path::new("f"), len: 0 };
        let r = Trigger::trigger(&t, &lf);
        let after = idx(&*t.next_roll_time.read().unwrap());
        kani::cover!(now == sched, "record exactly at the scheduled instant");
        kani::cover!(now >= sched + 3, "idle gap of several intervals");
        assert!(matches!(r, Ok(b) if b == (now >= sched)), "trigger#post fires exactly when the clock reading is at or after the scheduled instant");
        if now >= sched { assert!(after > now, "trigger#post after firing the schedule lies strictly after the current instant"); }
        else { assert!(after == sched, "trigger#post the schedule is untouched when the trigger does not fire"); }
        assert!(t.is_pre_process(), "is_pre_process#post a time trigger rolls before the record is written");
        std::mem::forget(r);
    }
}
