//@file src/encode/pattern/mod.rs
//@harness c11_chunk_from_names unwind=30 strength=bounded bound="the 23 documented formatter names and aliases, the empty name, and 4 unknown names (incl. a 19-byte name whose 16th/17th bytes are one 2-byte character and a name of 4-byte characters), each with 0, 1, 2 and 3 one-piece arguments; all inputs concrete; alloc::fmt::format replaced by a constant" timeout=1800 replay=no
// From<Piece> for Chunk (formatter table and arity checks): "unknown formatters, wrong argument counts ... are surfaced as
// a visible {ERROR: ...} marker": a known formatter with an argument count its arity allows becomes the matching chunk
// with its parameters unchanged; everything else becomes Chunk::Error; nothing panics (whatever the name is made of).
#[cfg(kani)]
#[allow(dead_code, unused)]
mod __verif_c11_chunk {
    use super::*;
    use crate::encode::pattern::parser::{Alignment, Formatter, Parameters, Piece};
    fn m_format(_a: std::fmt::Arguments<'_>) -> String { String::new() }
    const N: usize = 28;
    const NAMES: [&str; N] = ["l", "level", "m", "message", "M", "module", "n", "f", "file", "L", "line", "T", "thread", "I", "thread_id", "P", "pid", "i", "tid", "t", "target", "h", "X", "",
                              "zz", "Level", "aaaaaaaaaaaaaaa\u{e9}bb", "\u{1F600}\u{1F600}\u{1F600}\u{1F600}\u{1F600}"];
    // kind: 0..=10 simple formatters in FormattedChunk order, 20 = needs exactly one argument (group), 21 = mdc, 99 = unknown
    const KIND: [u8; N] = [0, 0, 1, 1, 2, 2, 10, 3, 3, 4, 4, 5, 5, 6, 6, 7, 7, 8, 8, 9, 9, 20, 21, 20, 99, 99, 99, 99];
    fn simple(k: u8) -> FormattedChunk { match k { 0 => FormattedChunk::Level, 1 => FormattedChunk::Message, 2 => FormattedChunk::Module, 3 => FormattedChunk::File, 4 => FormattedChunk::Line, 5 => FormattedChunk::Thread, 6 => FormattedChunk::ThreadId, 7 => FormattedChunk::ProcessId, 8 => FormattedChunk::SystemThreadId, 9 => FormattedChunk::Target, _ => FormattedChunk::Newline } }
    fn one(idx: usize, nargs: usize) {
        let mut args: Vec<Vec<Piece>> = Vec::new();
        let mut i = 0; while i < nargs { args.push(vec![Piece::Text("k")]); i += 1; }
        let params = Parameters { fill: '*', align: Alignment::Right, min_width: Some(7), max_width: None };
        let piece = Piece::Argument { formatter: Formatter { name: NAMES[idx], args }, parameters: params.clone() };
        let chunk = Chunk::from(piece);
        let kind = KIND[idx];
        match &chunk {
            Chunk::Formatted { chunk: fc, params: p } => {
                assert!(*p == params, "from#post the format parameters are carried over unchanged");
                if kind < 11 { assert!(nargs == 0 && *fc == simple(kind), "from#post a simple formatter without arguments becomes the matching chunk"); }
                else if kind == 20 { assert!(nargs == 1 && matches!(fc, FormattedChunk::Highlight(_) | FormattedChunk::Align(_)), "from#post a group formatter takes exactly one argument"); }
                else if kind == 21 { assert!(nargs >= 1 && nargs <= 2 && matches!(fc, FormattedChunk::Mdc(_, _)), "from#post mdc takes a key and an optional default"); }
                else { assert!(false, "from#post an unknown formatter never becomes a formatted chunk"); }
            }
            Chunk::Error(_) => {
                assert!(kind == 99 || (kind < 11 && nargs > 0) || (kind == 20 && nargs != 1) || (kind == 21 && (nargs == 0 || nargs > 2)), "from#post an error marker appears only for unknown formatters and wrong argument counts");
            }
            Chunk::Text(_) => { assert!(false, "from#post an argument piece never becomes literal text"); }
        }
        std::mem::forget(chunk);
    }
    #[kani::proof]
    #[kani::unwind(30)]
    #[kani::stub(alloc::fmt::format, m_format)]
    fn c11_chunk_from_names() {
        let mut idx = 0;
        while idx < N {
            let mut nargs = 0;
            while nargs <= 3 { one(idx, nargs); nargs += 1; }
            idx += 1;
        }
    }
}
