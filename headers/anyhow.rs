// contract header (assumed): crate `anyhow` — an opaque error type; `?` with the same error type needs no conversion.
pub mod anyhow {
    use vstd::prelude::*;
    #[verifier::external_body]
    pub struct Error { _p: () }
    pub type Result<T> = std::result::Result<T, Error>;
}
// equality of two unit results, written so that it does not depend on the verifier knowing that all values of `()` are equal
// (Verus 0.2026.09.13 cannot prove `x is Ok ==> x == Ok(())` for an opaque x: a `match r { Ok(()) => Ok(()), Err(e) => Err(e) }`
// in the code would otherwise fail a postcondition `r == spec` that the equivalent `r?; Ok(())` passes)
pub open spec fn same_outcome<E>(a: Result<(), E>, b: Result<(), E>) -> bool {
    match (a, b) { (Ok(_), Ok(_)) => true, (Err(x), Err(y)) => x == y, _ => false }
}
