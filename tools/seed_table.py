#!/usr/bin/env python3
"""rewrite the '<!-- SEEDS:BEGIN --> ... <!-- SEEDS:END -->' region of DESIGN.md from seeded/*/meta.json"""
import json, os, re
V = os.path.dirname(os.path.dirname(os.path.abspath(__file__)))
rows = []
for d in sorted(os.listdir(os.path.join(V, 'seeded'))):
    mp = os.path.join(V, 'seeded', d, 'meta.json')
    if not os.path.exists(mp):
        continue
    m = json.load(open(mp))
    det = m.get('detected_by') or {}
    verdict = det.get('verdict', 'not run')
    outs = det.get('check_output') or []
    if isinstance(outs, str):
        outs = [outs]
    by = []
    for l in outs:
        mm = re.match(r'^VIOLATION property=\S+ replay=\S*/[^-]+-(?:C\d+-\d+-)?(.*?)\.json( no-failing-input-found)?', l)
        if mm:
            by.append(mm.group(1)[:70] + (' (no input)' if mm.group(2) else ' (replayed)'))
        elif l.startswith('UNDECIDED'):
            by.append(l[:110])
    rows.append('| %s | %s | %s | %s | %s |' % (d, m['property'], m['change'].replace('|', '/')[:150], verdict, '; '.join(by[:2]) or '-'))
import collections
tally = collections.Counter(r.split('|')[4].strip().split(' ')[0] for r in rows)
totals = '%d seeded changes: %s.\n\n' % (len(rows), ', '.join('%d %s' % (n, k) for k, n in sorted(tally.items())))
table = totals + '| seed | property | change | verdict of `./check` | obligations that caught it |\n|---|---|---|---|---|\n' + '\n'.join(rows)
p = os.path.join(V, 'DESIGN.md')
s = open(p).read()
if '<!-- SEEDS:BEGIN -->' in s:
    s = re.sub(r'<!-- SEEDS:BEGIN -->.*?<!-- SEEDS:END -->', '<!-- SEEDS:BEGIN -->\n' + table + '\n<!-- SEEDS:END -->', s, flags=re.S)
    open(p, 'w').write(s)
print(table)
