//@file src/lib.rs
//@harness c02_enabled_twin strength=complete bound="all 6 thresholds x 5 levels (full domain), loop-free" timeout=300 body=body_enabled
// ConfiguredLogger::enabled(level) <=> threshold admits level (twin of the Verus contract; also the conformance check
// of headers/log.rs against the real `log` crate). (A Kani twin of max_log_level on a 4-node tree was tried: CBMC does not finish in 400 s because of hashbrown; removed.)
#[cfg(any(kani, verif_replay))]
#[allow(dead_code, unused)]
mod __verif_c02 {
    use super::*;
    use crate::__verif_rt::*;
    use crate::{__verif_ob, __verif_cover};
    fn filt(v: u8) -> LevelFilter { match v {0=>LevelFilter::Off,1=>LevelFilter::Error,2=>LevelFilter::Warn,3=>LevelFilter::Info,4=>LevelFilter::Debug,_=>LevelFilter::Trace} }
    fn lvl(v: u8) -> Level { match v {1=>Level::Error,2=>Level::Warn,3=>Level::Info,4=>Level::Debug,_=>Level::Trace} }
    fn rank(l: LevelFilter) -> u8 { match l {LevelFilter::Off=>0,LevelFilter::Error=>1,LevelFilter::Warn=>2,LevelFilter::Info=>3,LevelFilter::Debug=>4,LevelFilter::Trace=>5} }

    pub(crate) fn body_enabled(src: &mut Src) {
        let lf = src.u8(); assume(lf <= 5);
        let lv = src.u8(); assume(lv >= 1 && lv <= 5);
        let node = ConfiguredLogger { level: filt(lf), appenders: Vec::new(), children: FnvHashMap::default() };
        let r = node.enabled(lvl(lv));
        __verif_cover!("level exactly at the threshold", lf == lv);
        __verif_ob!("enabled#post enabled iff the threshold admits the level", r == (lv <= lf));
        std::mem::forget(node);
    }

    #[cfg(kani)]
    #[kani::proof]
    fn c02_enabled_twin() { let mut src = Src::new(); body_enabled(&mut src); }
}
