#!/usr/bin/env python3
"""run every Verus unit once (fast sanity pass before a commit): prints unit, status, failing obligation ids"""
import os, sys, glob, concurrent.futures as cf
V = os.path.dirname(os.path.dirname(os.path.abspath(__file__)))
sys.path.insert(0, os.path.join(V, 'tools'))
import vx
def one(spec):
    w = vx.Weaver(spec)
    try:
        text, lm = w.weave()
    except Exception as e:
        return os.path.basename(spec), 'WEAVE-ERROR %s' % e, []
    out = '/tmp/vxall_%s.rs' % w.unit
    open(out, 'w').write(text)
    r = vx.run_verus(out)
    fails, tools = [], []
    for d in r['diagnostics']:
        c, o = vx.classify(d, lm)
        if c == 'verification': fails.append(o.get('id'))
        elif c in ('tool', 'undecided'): tools.append(o.get('message', '')[:120])
    vr = (r.get('json') or {}).get('verification-results') or {}
    if not tools and not fails and not vr.get('success'):
        tools = ['verus reported no success and no diagnostic (internal error of the verifier?): ' + (r.get('stderr') or '')[-200:]]
    st = 'TOOL-ERROR ' + '; '.join(tools[:2]) if tools else ('failed' if fails else 'ok')
    return os.path.basename(spec), st, fails
with cf.ThreadPoolExecutor(8) as ex:
    for name, st, fails in ex.map(one, sorted(glob.glob(os.path.join(V, 'specs', '*.vrs')))):
        print('%-28s %-12s %s' % (name, st, ', '.join(sorted(set(f or '?' for f in fails)))[:150]))
