//@file src/append/rolling_file/policy/compound/trigger/size.rs
//@harness c06_size_trigger_twin strength=complete bound="all (limit, len) in u64 x u64 (full domain), loop-free" timeout=300
#[cfg(any(kani, verif_replay))]
#[allow(dead_code, unused)]
mod __verif_c06_size {
    use super::*;
    use crate::__verif_rt::*;
    use crate::{__verif_ob, __verif_cover};
    use std::path::Path;
    pub(crate) fn body(src: &mut Src) {
        let lim = src.u64(); let len = src.u64();
        let t = SizeTrigger::new(lim);
        let mut w = None;
        let lf = LogFile { writer: &mut w, path: Path::new("x"), len };
        let r = t.trigger(&lf);
        __verif_cover!("file exactly at the limit", len == lim);
        __verif_cover!("limit 0", lim == 0 && len > 0);
        __verif_ob!("trigger#post rolls exactly when the file is larger than the limit", matches!(r, Ok(b) if b == (len > lim)));
        __verif_ob!("is_pre_process#post size trigger is consulted after the write", !t.is_pre_process());
        std::mem::forget(r);
    }
    #[cfg(kani)]
    #[kani::proof]
    fn c06_size_trigger_twin() { let mut src = Src::new(); body(&mut src); }
}
