//@file src/append/rolling_file/mod.rs
//@harness c06_get_writer_twin unwind=6 strength=bounded bound="both open modes x empty slot; std::fs::OpenOptions / File::metadata / Metadata::len replaced by a recording model; any pre-existing size" timeout=900 replay=no
// Kani twin of the Verus contract of RollingFileAppender::get_writer (counterexamples, and a verdict when a refactoring
// moves code into helpers the Verus unit does not extract): the file is (re)opened with write + create +
// append == self.append + truncate == !self.append, and the counter starts at the size of that handle in append mode, 0 otherwise.
#[cfg(kani)]
#[allow(dead_code, unused)]
mod __verif_c06_gw {
    use super::*;
    use std::os::fd::FromRawFd;
    static mut FLAGS: [u8; 4] = [2; 4];   // write, append, truncate, create: 2 = not set
    static mut OPENS: u8 = 0;
    static mut SIZE: u64 = 0;
    fn m_write(o: &mut OpenOptions, b: bool) -> &mut OpenOptions { unsafe { FLAGS[0] = b as u8; } o }
    fn m_append(o: &mut OpenOptions, b: bool) -> &mut OpenOptions { unsafe { FLAGS[1] = b as u8; } o }
    fn m_truncate(o: &mut OpenOptions, b: bool) -> &mut OpenOptions { unsafe { FLAGS[2] = b as u8; } o }
    fn m_create(o: &mut OpenOptions, b: bool) -> &mut OpenOptions { unsafe { FLAGS[3] = b as u8; } o }
    fn m_open<P: AsRef<Path>>(_o: &OpenOptions, _p: P) -> io::Result<File> { unsafe { OPENS += 1; Ok(File::from_raw_fd(7)) } }
    fn m_metadata(_f: &File) -> io::Result<fs::Metadata> { Ok(unsafe { std::mem::zeroed() }) }
    fn m_len(_m: &fs::Metadata) -> u64 { unsafe { SIZE } }
    fn m_path_metadata<P: AsRef<Path>>(_p: P) -> io::Result<fs::Metadata> { Ok(unsafe { std::mem::zeroed() }) }

    struct NoEnc;
    impl std::fmt::Debug for NoEnc { fn fmt(&self, _f: &mut std::fmt::Formatter<'_>) -> std::fmt::Result { Ok(()) } }
    impl Encode for NoEnc { fn encode(&self, _w: &mut dyn encode::Write, _r: &Record) -> anyhow::Result<()> { Ok(()) } }
    struct NoPol;
    impl std::fmt::Debug for NoPol { fn fmt(&self, _f: &mut std::fmt::Formatter<'_>) -> std::fmt::Result { Ok(()) } }
    impl policy::Policy for NoPol { fn process(&self, _l: &mut LogFile) -> anyhow::Result<()> { Ok(()) } fn is_pre_process(&self) -> bool { false } }

    #[kani::proof]
    #[kani::unwind(6)]
    #[kani::stub(std::fs::OpenOptions::write, m_write)]
    #[kani::stub(std::fs::OpenOptions::append, m_append)]
    #[kani::stub(std::fs::OpenOptions::truncate, m_truncate)]
    #[kani::stub(std::fs::OpenOptions::create, m_create)]
    #[kani::stub(std::fs::OpenOptions::open, m_open)]
    #[kani::stub(std::fs::File::metadata, m_metadata)]
    #[kani::stub(std::fs::Metadata::len, m_len)]
    #[kani::stub(std::fs::metadata, m_path_metadata)]
    fn c06_get_writer_twin() {
        let append: bool = kani::any();
        let size: u64 = kani::any();
        unsafe { SIZE = size; FLAGS = [2; 4]; OPENS = 0; }
        let app = RollingFileAppender { writer: Mutex::new(None), path: PathBuf::from("f"), append, encoder: Box::new(NoEnc), policy: Box::new(NoPol) };
        let mut slot: Option<LogWriter> = None;
        let r = app.get_writer(&mut slot);
        let (ok, len) = match r { Ok(w) => (true, w.len), Err(_) => (false, 0) };
        let flags = unsafe { FLAGS };
        kani::cover!(append && size > 0, "append mode with pre-existing content");
        assert!(ok, "get_writer#post Ok when the open and the metadata call succeed");
        assert!(unsafe { OPENS } == 1, "get_writer#post an empty slot is filled by exactly one open");
        assert!(flags[0] == 1 && flags[3] == 1, "get_writer#post opened with write and create");
        assert!(flags[1] == append as u8 && flags[2] == (!append) as u8, "get_writer#post append == self.append and truncate == !self.append on every (re)open");
        assert!(len == if append { size } else { 0 }, "get_writer#post the counter starts at the size of the handle just opened in append mode, at 0 after a truncating open");
        std::mem::forget(slot); std::mem::forget(app);
    }
}
