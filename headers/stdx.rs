// contract header (assumed): std combinators that vstd does not specify yet (so that more Rust is accepted verbatim)
pub assume_specification<T, E>[ Result::<T, E>::unwrap_or ](r: Result<T, E>, default: T) -> (o: T)
    ensures o == (match r { Ok(v) => v, Err(_) => default });
