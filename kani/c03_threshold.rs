//@file src/filter/threshold.rs
//@harness c03_threshold_filter_twin strength=complete bound="all 6 thresholds x 5 record levels (full domain), loop-free" timeout=300
#[cfg(any(kani, verif_replay))]
#[allow(dead_code, unused)]
mod __verif_c03_thr {
    use super::*;
    use crate::__verif_rt::*;
    use crate::{__verif_ob, __verif_cover};
    use log::Level;
    pub(crate) fn body(src: &mut Src) {
        let lf = src.u8(); assume(lf <= 5);
        let lv = src.u8(); assume(lv >= 1 && lv <= 5);
        let f = ThresholdFilter::new(match lf {0=>LevelFilter::Off,1=>LevelFilter::Error,2=>LevelFilter::Warn,3=>LevelFilter::Info,4=>LevelFilter::Debug,_=>LevelFilter::Trace});
        let level = match lv {1=>Level::Error,2=>Level::Warn,3=>Level::Info,4=>Level::Debug,_=>Level::Trace};
        let rec = Record::builder().level(level).build();
        let r = Filter::filter(&f, &rec);
        __verif_cover!("record exactly at the threshold", lv == lf);
        // statement: rejects exactly the records more verbose than its level, otherwise neutral
        if lv > lf { __verif_ob!("filter#post Reject iff more verbose than the threshold", r == Response::Reject); }
        else { __verif_ob!("filter#post Neutral otherwise", r == Response::Neutral); }
    }
    #[cfg(kani)]
    #[kani::proof]
    fn c03_threshold_filter_twin() { let mut src = Src::new(); body(&mut src); }
}
