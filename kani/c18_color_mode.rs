//@file src/encode/writer/console.rs
//@extract-closure src/encode/writer/console.rs :: static COLOR_MODE as __verif_color_mode_init -> ColorMode
//@harness c18_color_mode_precedence unwind=20 strength=complete bound="all 27 states of NO_COLOR/CLICOLOR_FORCE/CLICOLOR in {unset, 0, 1}; std::env::var stubbed" replay=no
// The body of the COLOR_MODE initialiser closure is extracted mechanically (rule E8) as
// __verif_color_mode_init() because once_cell::sync::Lazy cannot be compiled by Kani.
// Contract from the statement: never under NO_COLOR, otherwise always under CLICOLOR_FORCE, otherwise never
// under CLICOLOR=0, otherwise only on terminals (Auto). "Set" means set to a value other than "0".
#[cfg(kani)]
#[allow(dead_code, unused)]
mod __verif_c18_color_mode {
    use super::*;
    static mut ENVV: [u8; 3] = [0; 3]; // per variable: 0 unset, 1 "0", 2 "1"
    fn model_var<K: AsRef<std::ffi::OsStr>>(key: K) -> Result<String, std::env::VarError> {
        let k = key.as_ref().as_encoded_bytes();
        // NO_COLOR (8 bytes, starts with N), CLICOLOR (8 bytes, starts with C), CLICOLOR_FORCE (14 bytes)
        let i = if k.len() == 14 { 1 } else if k[0] == b'N' { 0 } else { 2 };
        let v = unsafe { ENVV[i] };
        match v { 0 => Err(std::env::VarError::NotPresent), 1 => Ok(String::from("0")), _ => Ok(String::from("1")) }
    }
    #[kani::proof]
    #[kani::unwind(20)]
    #[kani::stub(std::env::var, model_var)]
    fn c18_color_mode_precedence() {
        let e: [u8; 3] = kani::any();
        kani::assume(e[0] <= 2 && e[1] <= 2 && e[2] <= 2);
        unsafe { ENVV = e; }
        let m = __verif_color_mode_init();
        let no_color = e[0] == 2; let force = e[1] == 2; let cli_off = e[2] == 1;
        kani::cover!(no_color && force, "NO_COLOR and CLICOLOR_FORCE both set");
        kani::cover!(!no_color && !force && cli_off, "CLICOLOR=0 alone");
        match m {
            ColorMode::Never => assert!(no_color || (!force && cli_off), "color_mode_init#post Never only under NO_COLOR, or CLICOLOR=0 without CLICOLOR_FORCE"),
            ColorMode::Always => assert!(!no_color && force, "color_mode_init#post Always only under CLICOLOR_FORCE without NO_COLOR"),
            ColorMode::Auto => assert!(!no_color && !force && !cli_off, "color_mode_init#post Auto only when nothing overrides"),
        }
    }
}
