//@file src/config/raw.rs
//@harness c20_refresh_rate_passthrough unwind=6 strength=bounded bound="every ASCII string of <= 4 bytes as the refresh_rate scalar, every answer of humantime (Ok with any Duration, or Err); humantime::parse_duration replaced by a recording model" timeout=900 replay=no
//@harness c20_refresh_rate_table8 unwind=16 strength=bounded bound="8 concrete texts (30s, 5m, 5M, 2H, '1hour 12min 5s', -5s, empty, '5 parsecs') against the real humantime::parse_duration" timeout=1500 body=body_table8
//@harness c20_refresh_rate_table unwind=26 strength=bounded bound="24 concrete texts: every humantime unit family in its short and long form, upper-case variants (1M vs 1m), compound spans, inner/outer whitespace, sign, fraction, unknown unit, empty, u64 overflow" timeout=2400 body=body_table tier=thorough
//@harness c20_refresh_rate_absent strength=complete bound="an absent (null) refresh_rate: loop-free" timeout=600 body=body_absent
// Third anchor of C20: de_duration (src/config/raw.rs) gives refresh_rate the meaning humantime assigns to the text as
// written (units there are case-SENSITIVE: 1M is a month, 1m a minute), and rejects what humantime rejects.
// Oracle: the real humantime::parse_duration on the same bytes (compiled from the vendored crate, no stub).
#[cfg(any(kani, verif_replay))]
#[allow(dead_code, unused)]
mod __verif_c20_refresh {
    use super::*;
    use crate::__verif_rt::*;
    use crate::{__verif_ob, __verif_cover};
    use serde::de::Visitor;
    pub(crate) struct E;
    impl std::fmt::Debug for E { fn fmt(&self, _f: &mut std::fmt::Formatter) -> std::fmt::Result { Ok(()) } }
    impl std::fmt::Display for E { fn fmt(&self, _f: &mut std::fmt::Formatter) -> std::fmt::Result { Ok(()) } }
    impl std::error::Error for E {}
    impl serde::de::Error for E { fn custom<T: std::fmt::Display>(_m: T) -> Self { E } }
    // a deserializer holding one scalar: Some(text) or null (what serde_yaml does for `refresh_rate: <text>` / absent)
    struct One<'a>(Option<&'a str>);
    impl<'de, 'a> serde::Deserializer<'de> for One<'a> {
        type Error = E;
        fn deserialize_any<V: Visitor<'de>>(self, v: V) -> Result<V::Value, E> { match self.0 { Some(s) => v.visit_str(s), None => v.visit_unit() } }
        fn deserialize_option<V: Visitor<'de>>(self, v: V) -> Result<V::Value, E> { match self.0 { Some(_) => v.visit_some(self), None => v.visit_none() } }
        serde::forward_to_deserialize_any! { bool i8 i16 i32 i64 i128 u8 u16 u32 u64 u128 f32 f64 char str string bytes byte_buf unit unit_struct newtype_struct seq tuple tuple_struct map struct enum identifier ignored_any }
    }
    fn compare(s: &str) {
        let got = de_duration(One(Some(s)));
        let want = humantime::parse_duration(s);
        match (&got, &want) {
            (Ok(Some(g)), Ok(w)) => { __verif_ob!("de_duration#post refresh_rate is exactly the duration humantime assigns to the written text", *g == *w); }
            (Err(_), Err(_)) => {}
            (_, Ok(_)) => { __verif_ob!("de_duration#post a text humantime accepts is accepted, with its value", false); }
            (_, Err(_)) => { __verif_ob!("de_duration#post a text humantime rejects (unknown unit, sign, fraction, overflow) is rejected", false); }
        }
        std::mem::forget(want);
    }
    const TABLE: [&str; 24] = ["30s", "5m", "5M", "2h", "2H", "1d", "1D", "3w", "1y", "1Y", "7ms", "7MS", "15 seconds", "1hour 12min 5s", "1 minute",
        " 10s ", "90", "-5s", "1.5s", "5 parsecs", "", "s", "18446744073709551616s", "18446744073709551615y"];
    const TABLE8: [&str; 8] = ["30s", "5m", "5M", "2H", "1hour 12min 5s", "-5s", "", "5 parsecs"];
    pub(crate) fn body_table8(src: &mut Src) {
        let mut i = 0;
        while i < TABLE8.len() { compare(TABLE8[i]); i += 1; }
    }
    pub(crate) fn body_table(src: &mut Src) {
        let mut i = 0;
        while i < TABLE.len() { compare(TABLE[i]); i += 1; }
    }
    pub(crate) fn body_absent(src: &mut Src) {
        let got = de_duration(One(None));
        __verif_ob!("de_duration#post an absent refresh_rate stays absent", matches!(got, Ok(None)));
    }
    // ---- pass-through: whatever the text and whatever humantime answers ----
    #[cfg(kani)] static mut CALLS: usize = 0;
    #[cfg(kani)] static mut SEEN_LEN: usize = 0;
    #[cfg(kani)] static mut SEEN: [u8; 4] = [0; 4];
    #[cfg(kani)] static mut ANS_OK: bool = false;
    #[cfg(kani)] static mut ANS: (u64, u32) = (0, 0);
    #[cfg(kani)]
    fn m_parse(s: &str) -> Result<Duration, humantime::DurationError> {
        unsafe {
            CALLS += 1; SEEN_LEN = s.len();
            let b = s.as_bytes(); let mut i = 0;
            while i < 4 && i < b.len() { SEEN[i] = b[i]; i += 1; }
            if ANS_OK { Ok(Duration::new(ANS.0, ANS.1)) } else { Err(humantime::DurationError::Empty) }
        }
    }
    #[cfg(kani)] #[kani::proof] #[kani::unwind(6)]
    #[kani::stub(humantime::parse_duration, m_parse)]
    fn c20_refresh_rate_passthrough() {
        let n: usize = kani::any(); kani::assume(n <= 4);
        let bytes: [u8; 4] = kani::any();
        kani::assume(bytes[0] < 128 && bytes[1] < 128 && bytes[2] < 128 && bytes[3] < 128);
        let s = unsafe { std::str::from_utf8_unchecked(&bytes[..n]) };
        let ok: bool = kani::any(); let secs: u64 = kani::any(); let nanos: u32 = kani::any(); kani::assume(nanos < 1_000_000_000);
        unsafe { ANS_OK = ok; ANS = (secs, nanos); }
        let got = de_duration(One(Some(s)));
        kani::cover!(n == 2 && bytes[1] == b'M', "a unit letter whose case matters to humantime");
        kani::cover!(!ok, "humantime rejects the text");
        assert!(unsafe { CALLS } == 1, "de_duration#post the scalar is parsed by humantime, once");
        let mut same = unsafe { SEEN_LEN } == n; let mut i = 0;
        while i < 4 { if i < n && unsafe { SEEN[i] } != bytes[i] { same = false; } i += 1; }
        assert!(same, "de_duration#post humantime sees the text exactly as written (no case folding, trimming or rewriting: 1M is a month, 1m a minute)");
        if ok { assert!(matches!(got, Ok(Some(d)) if d == Duration::new(secs, nanos)), "de_duration#post the duration humantime assigns is the refresh rate, unchanged"); }
        else { assert!(got.is_err(), "de_duration#post a text humantime rejects is rejected with an error, not ignored or defaulted"); }
        std::mem::forget(got);
    }
    #[cfg(kani)] #[kani::proof] #[kani::unwind(16)] fn c20_refresh_rate_table8() { let mut s = Src::new(); body_table8(&mut s); }
    #[cfg(kani)] #[kani::proof] #[kani::unwind(26)] fn c20_refresh_rate_table() { let mut s = Src::new(); body_table(&mut s); }
    #[cfg(kani)] #[kani::proof] fn c20_refresh_rate_absent() { let mut s = Src::new(); body_absent(&mut s); }
}
