//@file src/lib.rs
//@harness c03_log_error_handler unwind=4 strength=bounded bound="root logger with 2 attachments over 2 appenders each failing or not, threshold admitting or not; ArcSwap::load replaced by an equivalent guard construction, ConfiguredLogger::find by the identity (routing is C01, not claimed)" timeout=2400 replay=no
// <Logger as log::Log>::log: "each appender error is handed to the configured error handler exactly once";
// the configuration snapshot is loaded once and used for the fan-out and for the error handler.
#[cfg(kani)]
#[allow(dead_code, unused)]
mod __verif_c03_handler {
    use super::*;
    use std::sync::atomic::{AtomicPtr, AtomicUsize, Ordering};
    use arc_swap::{ArcSwapAny, Guard, RefCnt, strategy::Strategy};
    static HANDLED: AtomicUsize = AtomicUsize::new(0);
    static HANDLED_SUM: AtomicUsize = AtomicUsize::new(0);
    static LOADS: AtomicUsize = AtomicUsize::new(0);
    struct Cap(usize, bool);
    impl std::fmt::Debug for Cap { fn fmt(&self, _f: &mut std::fmt::Formatter<'_>) -> std::fmt::Result { Ok(()) } }
    impl Append for Cap {
        fn append(&self, _r: &Record) -> anyhow::Result<()> {
            if self.1 { Err(unsafe { std::mem::transmute::<usize, anyhow::Error>(0x1000 + (self.0 + 1) * 16) }) } else { Ok(()) }
        }
        fn flush(&self) {}
    }
    fn m_load<T: RefCnt, S: Strategy<T>>(s: &ArcSwapAny<T, S>) -> Guard<T, S> {
        LOADS.fetch_add(1, Ordering::Relaxed);
        let p = unsafe { (*(s as *const ArcSwapAny<T, S> as *const AtomicPtr<T::Base>)).load(Ordering::Relaxed) };
        let v: T = unsafe { T::from_ptr(p) };
        T::inc(&v);
        Guard::from_inner(v)
    }
    fn m_find<'a>(n: &'a ConfiguredLogger, _p: &str) -> &'a ConfiguredLogger { n }
    fn handler(e: &anyhow::Error) {
        HANDLED.fetch_add(1, Ordering::Relaxed);
        let t: usize = unsafe { *(e as *const anyhow::Error as *const usize) };
        HANDLED_SUM.fetch_add(t - 0x1000, Ordering::Relaxed);
    }
    #[kani::proof]
    #[kani::unwind(4)]
    #[kani::stub(arc_swap::ArcSwapAny::load, m_load)]
    #[kani::stub(ConfiguredLogger::find, m_find)]
    fn c03_log_error_handler() {
        let i0: usize = kani::any(); let i1: usize = kani::any();
        kani::assume(i0 < 2 && i1 < 2);
        let f0: bool = kani::any(); let f1: bool = kani::any();
        let admitted: bool = kani::any();
        let shared = SharedLogger {
            root: ConfiguredLogger { level: if admitted { LevelFilter::Info } else { LevelFilter::Error }, appenders: vec![i0, i1], children: FnvHashMap::default() },
            appenders: vec![Appender { appender: Box::new(Cap(0, f0)), filters: vec![] }, Appender { appender: Box::new(Cap(1, f1)), filters: vec![] }],
            err_handler: Box::new(|e: &anyhow::Error| handler(e)),
        };
        let logger = Logger(Arc::new(ArcSwap::new(Arc::new(shared))));
        let rec = Record::builder().level(Level::Info).build();
        log::Log::log(&logger, &rec);
        let fail = [f0, f1];
        let mut nfail = 0; let mut sum = 0;
        if fail[i0] { nfail += 1; sum += (i0 + 1) * 16; }
        if fail[i1] { nfail += 1; sum += (i1 + 1) * 16; }
        kani::cover!(admitted && nfail == 2, "two failing deliveries");
        assert!(LOADS.load(Ordering::Relaxed) == 1, "log#post the configuration snapshot is loaded exactly once per record");
        assert!(HANDLED.load(Ordering::Relaxed) == if admitted { nfail } else { 0 }, "log#post every appender error reaches the error handler exactly once");
        assert!(HANDLED_SUM.load(Ordering::Relaxed) == if admitted { sum } else { 0 }, "log#post the errors handed over are the ones the failing appenders returned");
        std::mem::forget(logger);
    }
}
