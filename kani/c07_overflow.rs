//@file src/append/rolling_file/policy/compound/roll/fixed_window.rs
//@harness c07_rotate_index_arithmetic unwind=16 strength=bounded bound="the single instance base = u32::MAX, count = 1; moves and directory creation replaced by no-ops" timeout=1200 body=body
// "for all bases and counts": the index arithmetic of rotate() (base + count - 1, i + 1) must not overflow / panic.
#[cfg(any(kani, verif_replay))]
#[allow(dead_code, unused)]
mod __verif_c07_ovf {
    use super::*;
    use crate::__verif_rt::*;
    use crate::{__verif_ob, __verif_cover};
    pub(crate) fn noop_move<P: AsRef<Path>, Q: AsRef<Path>>(_s: P, _d: Q) -> io::Result<()> { Ok(()) }
    pub(crate) fn noop_mkdir<P: AsRef<Path>>(_p: P) -> io::Result<()> { Ok(()) }
    pub(crate) fn body(src: &mut Src) {
        // one concrete instance (symbolic bases make `to_string` + `replace` intractable for CBMC); `pad` only keeps the replay interface uniform
        let pad = src.bool();
        let base = u32::MAX;
        let count = 1;
        let r = rotate("{}".to_owned(), Compression::None, base, count, PathBuf::from("f"));
        __verif_cover!("reached", true);
        __verif_ob!("rotate#post Ok (no index may overflow for any base and count)", r.is_ok());
        std::mem::forget(r);
    }
    #[cfg(kani)]
    #[kani::proof]
    #[kani::unwind(16)]
    #[kani::stub(move_file, noop_move)]
    #[kani::stub(std::fs::create_dir_all, noop_mkdir)]
    fn c07_rotate_index_arithmetic() { let mut s = Src::new(); body(&mut s); }
}
