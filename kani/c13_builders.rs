//@file src/config/runtime.rs
//@harness c13_builders_keep_order unwind=8 strength=bounded bound="AppenderBuilder with 1 + 2 filters" timeout=900 replay=no
//@harness c13_builders_refs_order unwind=8 strength=bounded bound="Root/Logger builders with 1 + 2 appender names; ConfigBuilder with 1 + 2 appenders and 1 + 2 loggers; every level, both additive flags" timeout=900 replay=no
// The builders hand the items over "in their original order" (C13) and filters are kept "in declaration order" (C03):
// single-item and bulk adders append at the end, nothing is dropped, names / levels / flags are stored as given.
#[cfg(kani)]
#[allow(dead_code, unused)]
mod __verif_c13_builders {
    use super::*;
    use crate::filter::Response;
    static mut ORDER: [u8; 4] = [0; 4];
    static mut ON: usize = 0;
    struct F(u8);
    impl std::fmt::Debug for F { fn fmt(&self, _f: &mut std::fmt::Formatter<'_>) -> std::fmt::Result { Ok(()) } }
    impl Filter for F { fn filter(&self, _r: &log::Record) -> Response { unsafe { if ON < 4 { ORDER[ON] = self.0; } ON += 1; } Response::Neutral } }
    struct A;
    impl std::fmt::Debug for A { fn fmt(&self, _f: &mut std::fmt::Formatter<'_>) -> std::fmt::Result { Ok(()) } }
    impl Append for A { fn append(&self, _r: &log::Record) -> anyhow::Result<()> { Ok(()) } fn flush(&self) {} }
    fn is(s: &str, c: u8) -> bool { let b = s.as_bytes(); b.len() == 1 && b[0] == c }
    fn filt(v: u8) -> LevelFilter { match v {0=>LevelFilter::Off,1=>LevelFilter::Error,2=>LevelFilter::Warn,3=>LevelFilter::Info,4=>LevelFilter::Debug,_=>LevelFilter::Trace} }

    #[kani::proof]
    #[kani::unwind(8)]
    fn c13_builders_keep_order() {
        // AppenderBuilder: filter(F1).filters([F2, F3]) keeps declaration order
        let app = Appender::builder().filter(Box::new(F(1))).filters(vec![Box::new(F(2)) as Box<dyn Filter>, Box::new(F(3))]).build("a", Box::new(A));
        assert!(is(app.name(), b'a'), "AppenderBuilder::build#post stores the name");
        assert!(app.filters.len() == 3, "AppenderBuilder#post no filter is dropped or duplicated");
        let rec = log::Record::builder().build();
        unsafe { ON = 0; }
        let mut i = 0; while i < 3 { let _ = app.filters[i].filter(&rec); i += 1; }
        assert!(unsafe { ORDER[0] == 1 && ORDER[1] == 2 && ORDER[2] == 3 }, "AppenderBuilder#post filters are kept in declaration order");
        std::mem::forget(app);
    }
    #[kani::proof]
    #[kani::unwind(8)]
    fn c13_builders_refs_order() {
        let app = Appender::builder().build("a", Box::new(A));
        // RootBuilder / LoggerBuilder
        let lv: u8 = kani::any(); kani::assume(lv <= 5);
        let additive: bool = kani::any();
        let root = Root::builder().appender("x").appenders(vec!["y", "z"]).build(filt(lv));
        assert!(root.level() == filt(lv), "RootBuilder::build#post stores the level");
        assert!(root.appenders().len() == 3 && is(&root.appenders()[0], b'x') && is(&root.appenders()[1], b'y') && is(&root.appenders()[2], b'z'), "RootBuilder#post appender references are kept in order");
        let lg = Logger::builder().appender("x").appenders(vec!["y", "z"]).additive(additive).build("n", filt(lv));
        assert!(is(lg.name(), b'n') && lg.level() == filt(lv) && lg.additive() == additive, "LoggerBuilder::build#post stores name, level and additivity");
        assert!(lg.appenders().len() == 3 && is(&lg.appenders()[0], b'x') && is(&lg.appenders()[1], b'y') && is(&lg.appenders()[2], b'z'), "LoggerBuilder#post appender references are kept in order");
        // ConfigBuilder adders
        let a2 = Appender::builder().build("b", Box::new(A));
        let a3 = Appender::builder().build("c", Box::new(A));
        let l2 = Logger::builder().build("m", filt(lv));
        let l3 = Logger::builder().build("k", filt(lv));
        let cb = Config::builder().appender(app).appenders(vec![a2, a3]).logger(lg).loggers(vec![l2, l3]);
        assert!(cb.appenders.len() == 3 && is(cb.appenders[0].name(), b'a') && is(cb.appenders[1].name(), b'b') && is(cb.appenders[2].name(), b'c'), "ConfigBuilder#post appenders are collected in order");
        assert!(cb.loggers.len() == 3 && is(cb.loggers[0].name(), b'n') && is(cb.loggers[1].name(), b'm') && is(cb.loggers[2].name(), b'k'), "ConfigBuilder#post loggers are collected in order");
        std::mem::forget(cb); std::mem::forget(root);
    }
}
