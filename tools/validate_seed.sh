#!/bin/bash
# validate_seed.sh <worktree> <change.diff> <demo.diff> <outdir>
# Confirms, in a scratch worktree of /repo: (1) with the change the existing suite passes exactly as on
# the pristine tree, (2) the demonstration fails with the change, (3) it passes without it.
wt=$1; change=$2; demo=$3; out=$4
mkdir -p $out
cd $wt || exit 2
git checkout -q -- . && git clean -fdq -e target
export CARGO_NET_OFFLINE=true
base() { cargo test --workspace --no-fail-fast --offline 2>&1 | grep -E '^test .* \.\.\. ' | sort; }
if [ ! -f $wt/../baseline.$(basename $wt).txt ]; then base > $wt/../baseline.$(basename $wt).txt; fi
git apply $change || { echo "APPLY-FAIL change" > $out/verdict.txt; exit 1; }
base > $out/suite_with_change.txt
if diff -q $wt/../baseline.$(basename $wt).txt $out/suite_with_change.txt >/dev/null; then s1=same; else s1=DIFFERENT; fi
git apply $demo || { echo "APPLY-FAIL demo" > $out/verdict.txt; git checkout -q -- .; git clean -fdq -e target; exit 1; }
# names of test files / tests added by the demo
tests=$(grep -E '^\+\+\+ b/tests/' $demo | sed 's#+++ b/tests/##; s#\.rs##')
if [ -n "$tests" ]; then
  args=""; for t in $tests; do args="$args --test $t"; done
  cargo test --offline $args > $out/demo_with_change.txt 2>&1; r_with=$?
  git apply -R $change
  cargo test --offline $args > $out/demo_without_change.txt 2>&1; r_without=$?
else
  # demo appended to an in-crate test module: run the lib tests whose names the demo adds
  names=$(grep -E '^\+\s*fn [a-z0-9_]+\(\)' $demo | sed -E 's/^\+\s*fn ([a-z0-9_]+).*/\1/' | tr '\n' ' ')
  r_with=0; r_without=0
  for nme in $names; do cargo test --offline --lib $nme >> $out/demo_with_change.txt 2>&1 || r_with=1; done
  git apply -R $demo; git apply -R $change; git apply $demo
  for nme in $names; do cargo test --offline --lib $nme >> $out/demo_without_change.txt 2>&1 || r_without=1; done
fi
echo "suite=$s1 demo_with_change_rc=$r_with demo_without_change_rc=$r_without" > $out/verdict.txt
git checkout -q -- . && git clean -fdq -e target
cat $out/verdict.txt
