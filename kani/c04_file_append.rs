//@file src/append/file.rs
//@harness c04_file_append strength=bounded bound="one append call, the mutex free or held by another owner at call time; encoder writing 0..=3 bytes or 1023+1 bytes (buffer exactly full) and succeeding or failing; flush succeeding (the failing-flush path converts io::Error into anyhow::Error, which CBMC does not finish); parking_lot slow paths replaced by no-ops" timeout=2400 replay=no
// FileAppender::append: the record is encoded and the buffered writer flushed exactly once each, in that order, while the
// appender's mutex is held; Ok is returned only after the flush succeeded; the mutex is released afterwards; errors of
// the encoder and of the flush are returned.
#[cfg(kani)]
#[allow(dead_code, unused)]
mod __verif_c04 {
    use super::*;
    use std::os::fd::FromRawFd;
    use crate::encode;
    static mut TRACE: [u8; 6] = [0; 6];   // 2 = encode, 4 = flush of the buffered writer
    static mut TN: usize = 0;
    static mut LOCKED_AT: [bool; 6] = [false; 6];
    static mut MTX: *const Mutex<SimpleWriter<BufWriter<File>>> = std::ptr::null();
    static mut NBYTES: usize = 0;
    static mut BIG: bool = false;
    static mut ENC_FAILS: bool = false;
    static mut FLUSH_FAILS: bool = false;
    fn ev(e: u8) { unsafe { if TN < 6 { TRACE[TN] = e; LOCKED_AT[TN] = (*MTX).is_locked(); } TN += 1; } }
    fn m_flush_buf<W: ?Sized + io::Write>(_b: &mut BufWriter<W>) -> io::Result<()> {
        ev(4);
        if unsafe { FLUSH_FAILS } { Err(io::Error::from(io::ErrorKind::Other)) } else { Ok(()) }
    }
    fn m_unlock_slow(_m: &parking_lot::RawMutex, _f: bool) {}
    fn m_lock_slow(_m: &parking_lot::RawMutex, _t: Option<std::time::Instant>) -> bool { true }
    struct Enc;
    impl std::fmt::Debug for Enc { fn fmt(&self, _f: &mut std::fmt::Formatter<'_>) -> std::fmt::Result { Ok(()) } }
    impl Encode for Enc {
        fn encode(&self, w: &mut dyn encode::Write, _r: &Record) -> anyhow::Result<()> {
            ev(2);
            if unsafe { BIG } {
                // a multi-chunk record that leaves exactly 1024 bytes in the 1 KiB buffer (no syscall is reached)
                let big = [b'x'; 1023];
                let _ = w.write(&big);
                let _ = w.write(b"\n");
            } else {
                let b = [b'x'; 3];
                let _ = w.write(&b[..unsafe { NBYTES }]);
            }
            // an opaque, never-dropped error token (constructing a real anyhow::Error does not terminate in CBMC)
            if unsafe { ENC_FAILS } { Err(unsafe { std::mem::transmute::<usize, anyhow::Error>(0x1000) }) } else { Ok(()) }
        }
    }
    // io::Error -> anyhow::Error conversion of the `?` on flush: replaced by an opaque token for the same reason
    fn m_from_std<E>(e: E, _bt: Option<std::backtrace::Backtrace>) -> anyhow::Error where E: std::error::Error + Send + Sync + 'static { std::mem::forget(e); unsafe { std::mem::transmute::<usize, anyhow::Error>(0x2000) } }

    #[kani::proof]
    #[kani::unwind(10)]
    #[kani::stub(parking_lot::RawMutex::unlock_slow, m_unlock_slow)]
    #[kani::stub(parking_lot::RawMutex::lock_slow, m_lock_slow)]
    #[kani::stub(std::io::BufWriter::flush_buf, m_flush_buf)]
    fn c04_file_append() {
        let nbytes: usize = kani::any(); kani::assume(nbytes <= 3);
        let ef: bool = kani::any(); let ff: bool = false;
        let big: bool = kani::any();
        // another thread may hold the mutex when append is called: the caller then waits (lock_slow) and appends afterwards
        let contended: bool = kani::any();
        let app = FileAppender { path: PathBuf::from("f"), file: Mutex::new(SimpleWriter(BufWriter::with_capacity(1024, unsafe { File::from_raw_fd(7) }))), encoder: Box::new(Enc) };
        unsafe { NBYTES = nbytes; BIG = big; ENC_FAILS = ef; FLUSH_FAILS = ff; TN = 0; TRACE = [0; 6]; MTX = &app.file; }
        if contended { std::mem::forget(app.file.lock()); }
        let rec = Record::builder().build();
        let r = Append::append(&app, &rec);
        let (t, n, l) = unsafe { (TRACE, TN, LOCKED_AT) };
        kani::cover!(ef, "encoder fails");
        kani::cover!(big && !ef, "record that fills the buffer exactly");
        kani::cover!(contended, "mutex held by someone else at the time of the call");
        // count events (a correct variant may flush more than once; it must not encode twice or flush before encoding)
        let mut encodes = 0; let mut flushes_after = 0; let mut flushes_before = 0; let mut unlocked = 0;
        let mut i = 0;
        while i < 6 { if i < n { if t[i] == 2 { encodes += 1; } if t[i] == 4 { if encodes > 0 { flushes_after += 1; } else { flushes_before += 1; } } if !l[i] { unlocked += 1; } } i += 1; }
        assert!(n <= 6 && unlocked == 0, "append#post encoding and flushing happen while the mutex is held");
        assert!(encodes == 1 && n >= 1 && t[0] == 2, "append#post the record is encoded exactly once, first");
        if ef {
            assert!(flushes_after == 0, "append#post an encoder error stops the call: nothing is flushed");
            assert!(r.is_err(), "append#post an encoder error is returned");
        } else {
            assert!(flushes_after >= 1 && t[n - 1] == 4, "append#post the encoded record is flushed before the call returns");
            assert!(r.is_ok() == !ff, "append#post Ok exactly when the flush succeeded (an acknowledged record has been flushed)");
        }
        assert!(!app.file.is_locked(), "append#post the mutex is released when the call returns");
        std::mem::forget(r); std::mem::forget(app);
    }

}
