//@file src/append/rolling_file/mod.rs
//@harness c06_logwriter_accounting unwind=20 strength=bounded bound="two consecutive writes of <= 8 bytes each into the 1 KiB buffer (no syscall is reached); any starting len <= u64::MAX - 16" timeout=600 replay=no
// LogWriter::write: len' = len + n for the n the buffered writer accepted. (Writes >= 1 KiB bypass the buffer and reach
// write(2), which Kani cannot model: they are outside this bound and reported as unverified.)
#[cfg(kani)]
#[allow(dead_code, unused)]
mod __verif_c06_lw {
    use super::*;
    use std::os::fd::FromRawFd;
    #[kani::proof]
    #[kani::unwind(20)]
    fn c06_logwriter_accounting() {
        let file = unsafe { File::from_raw_fd(7) };
        let len0: u64 = kani::any(); kani::assume(len0 <= u64::MAX - 16);
        let mut w = LogWriter { file: BufWriter::with_capacity(1024, file), len: len0 };
        let buf: [u8; 8] = kani::any();
        let n1: usize = kani::any(); kani::assume(n1 <= 8);
        let n2: usize = kani::any(); kani::assume(n2 <= 8);
        let r1 = io::Write::write(&mut w, &buf[..n1]);
        let k1 = match r1 { Ok(k) => k, Err(_) => 0 };
        assert!(k1 == n1, "write#post a write that fits the buffer is accepted whole");
        assert!(w.len == len0 + k1 as u64, "write#post len grows by exactly the accepted bytes (first write)");
        let r2 = io::Write::write(&mut w, &buf[..n2]);
        let k2 = match r2 { Ok(k) => k, Err(_) => 0 };
        kani::cover!(n1 > 0 && n2 > 0, "two non-empty writes");
        assert!(w.len == len0 + k1 as u64 + k2 as u64, "write#post len grows by exactly the accepted bytes (second write)");
        std::mem::forget(w);
    }
}
