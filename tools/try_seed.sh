#!/bin/bash
# try_seed.sh <seed-dir-name> [tier]  — apply a seeded change to /repo, run the property's check, undo the change.
s=$1; tier=${2:-quick}
pid=$(echo $s | cut -d- -f1)
cd /verif
git -C /repo apply /verif/seeded/$s/patch.diff || exit 3
./check $pid --tier $tier > /tmp/try_$s.log 2>&1; rc=$?
git -C /repo checkout -- .
grep -E "^(VIOLATION|UNDECIDED|OK|KNOWN)" /tmp/try_$s.log | cut -c1-300
echo "seed=$s rc=$rc"
