// Runtime shim woven into src/lib.rs of the *scratch copy* (never into /repo).
// Under Kani every value comes from kani::any(); under `--cfg verif_replay` the same harness body is
// executed natively on the byte vectors printed by `cargo kani --concrete-playback=print`, so a
// verifier counterexample is replayed on the real code.
#[cfg(any(kani, verif_replay))]
#[allow(dead_code, unused)]
pub(crate) mod __verif_rt {
    pub struct Src {
        #[cfg(not(kani))]
        pub data: Vec<Vec<u8>>,
        #[cfg(not(kani))]
        pub pos: usize,
    }
    impl Src {
        #[cfg(kani)]
        pub fn new() -> Src { Src {} }
        #[cfg(not(kani))]
        pub fn new() -> Src { Src { data: Vec::new(), pos: 0 } }
        #[cfg(not(kani))]
        pub fn from(data: Vec<Vec<u8>>) -> Src { Src { data, pos: 0 } }
        #[cfg(not(kani))]
        fn next(&mut self, n: usize) -> [u8; 16] {
            let mut out = [0u8; 16];
            if self.pos < self.data.len() {
                let v = &self.data[self.pos];
                let mut i = 0;
                while i < n && i < v.len() { out[i] = v[i]; i += 1; }
            }
            self.pos += 1;
            out
        }
        #[cfg(kani)] pub fn u8(&mut self) -> u8 { kani::any() }
        #[cfg(not(kani))] pub fn u8(&mut self) -> u8 { self.next(1)[0] }
        #[cfg(kani)] pub fn bool(&mut self) -> bool { kani::any() }
        #[cfg(not(kani))] pub fn bool(&mut self) -> bool { self.next(1)[0] != 0 }
        #[cfg(kani)] pub fn u16(&mut self) -> u16 { kani::any() }
        #[cfg(not(kani))] pub fn u16(&mut self) -> u16 { let b = self.next(2); u16::from_le_bytes([b[0], b[1]]) }
        #[cfg(kani)] pub fn u32(&mut self) -> u32 { kani::any() }
        #[cfg(not(kani))] pub fn u32(&mut self) -> u32 { let b = self.next(4); u32::from_le_bytes([b[0], b[1], b[2], b[3]]) }
        #[cfg(kani)] pub fn u64(&mut self) -> u64 { kani::any() }
        #[cfg(not(kani))] pub fn u64(&mut self) -> u64 { let b = self.next(8); let mut a = [0u8; 8]; a.copy_from_slice(&b[..8]); u64::from_le_bytes(a) }
        #[cfg(kani)] pub fn i64(&mut self) -> i64 { kani::any() }
        #[cfg(not(kani))] pub fn i64(&mut self) -> i64 { self.u64() as i64 }
        #[cfg(kani)] pub fn usize(&mut self) -> usize { kani::any() }
        #[cfg(not(kani))] pub fn usize(&mut self) -> usize { self.u64() as usize }
    }
    /// kani::assume under Kani; natively a replayed counterexample always satisfies its assumptions,
    /// a violated one means the replay does not correspond to the verifier's trace.
    #[cfg(kani)]
    pub fn assume(c: bool) { kani::assume(c) }
    #[cfg(not(kani))]
    pub fn assume(c: bool) { if !c { panic!("VERIF-REPLAY-ASSUMPTION-VIOLATED"); } }
    /// obligations: assert under Kani, panic with the obligation name natively
    #[cfg(kani)]
    #[macro_export]
    macro_rules! __verif_ob { ($name:expr, $c:expr) => { assert!($c, $name) }; }
    #[cfg(not(kani))]
    #[macro_export]
    macro_rules! __verif_ob { ($name:expr, $c:expr) => { if !($c) { panic!("VERIF-OBLIGATION-FAILED {}", $name); } }; }
    #[cfg(kani)]
    #[macro_export]
    macro_rules! __verif_cover { ($name:expr, $c:expr) => { kani::cover!($c, $name) }; }
    #[cfg(not(kani))]
    #[macro_export]
    macro_rules! __verif_cover { ($name:expr, $c:expr) => { let _ = $c; }; }
}
