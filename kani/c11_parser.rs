//@file src/encode/pattern/parser.rs
//@harness c11_parser_syntax_alphabet unwind=8 strength=bounded bound="every string of <= 4 characters over the syntax alphabet { } ( ) \\ : . < > 0 m d e-acute, parsed to exhaustion" timeout=3000 body=body tier=thorough
// The parser itself never panics (no slice out of range, no arithmetic overflow, no unwrap) and always terminates with
// a finite list of pieces, for every string over the characters that drive its state machine.
#[cfg(any(kani, verif_replay))]
#[allow(dead_code, unused)]
mod __verif_c11_parser {
    use super::*;
    use crate::__verif_rt::*;
    use crate::{__verif_ob, __verif_cover};
    const ALPHA: [&str; 13] = ["{", "}", "(", ")", "\\", ":", ".", "<", ">", "0", "m", "d", "é"];
    pub(crate) fn body(src: &mut Src) {
        let n = src.u8() as usize; assume(n <= 4);
        let mut b = [0u8; 8]; let mut len = 0usize;
        let mut i = 0;
        while i < 4 {
            let c = src.u8(); assume(c < 13);
            if i < n { let s = ALPHA[c as usize].as_bytes(); let mut j = 0; while j < s.len() { b[len] = s[j]; len += 1; j += 1; } }
            i += 1;
        }
        let s = unsafe { std::str::from_utf8_unchecked(&b[..len]) };
        let mut p = Parser::new(s);
        let mut pieces = 0usize;
        let mut errors = 0usize;
        while pieces < 6 {
            match p.next() {
                None => break,
                Some(piece) => { if let Piece::Error(_) = &piece { errors += 1; } std::mem::forget(piece); pieces += 1; }
            }
        }
        __verif_cover!("an argument with parameters", n == 4 && pieces == 1 && errors == 0 && b[0] == b'{' && b[1] == b'm');
        __verif_cover!("a syntax error", errors > 0);
        __verif_ob!("next#post at most one piece per input character, then None", pieces <= n && p.next().is_none());
    }
    #[cfg(kani)] #[kani::proof] #[kani::unwind(8)] fn c11_parser_syntax_alphabet() { let mut s = Src::new(); body(&mut s); }
}
