//@file src/append/rolling_file/mod.rs
//@harness c06_logwriter_accounting unwind=20 strength=bounded bound="two consecutive writes of <= 8 bytes each into the 1 KiB buffer (no syscall is reached); any starting len <= u64::MAX - 16" timeout=600 body=body
//@harness c06_logwriter_accounting_400 unwind=20 strength=bounded bound="two consecutive writes of <= 400 bytes each (together below the 1 KiB buffer, no syscall is reached); any starting len <= u64::MAX - 800" timeout=1800 body=body400 tier=thorough
// LogWriter::write: len' = len + n for the n the buffered writer accepted. (Writes >= 1 KiB bypass the buffer and reach
// write(2), which Kani cannot model: they are outside this bound and reported as unverified.)
#[cfg(any(kani, verif_replay))]
#[allow(dead_code, unused)]
mod __verif_c06_lw {
    use super::*;
    use crate::__verif_rt::*;
    use crate::{__verif_ob, __verif_cover};
    use std::os::fd::FromRawFd;
    pub(crate) fn body400(src: &mut Src) {
        let file = unsafe { File::from_raw_fd(7) };
        let len0 = src.u64(); assume(len0 <= u64::MAX - 800);
        let mut w = LogWriter { file: BufWriter::with_capacity(1024, file), len: len0 };
        let mut buf = [0u8; 400]; buf[0] = src.u8(); buf[399] = src.u8();
        let n1 = src.u16() as usize; assume(n1 <= 400);
        let n2 = src.u16() as usize; assume(n2 <= 400);
        let r1 = io::Write::write(&mut w, &buf[..n1]);
        let k1 = match r1 { Ok(k) => k, Err(_) => 0 };
        __verif_ob!("write#post a write that fits the buffer is accepted whole", k1 == n1);
        __verif_ob!("write#post len grows by exactly the accepted bytes (first write)", w.len == len0 + k1 as u64);
        let r2 = io::Write::write(&mut w, &buf[..n2]);
        let k2 = match r2 { Ok(k) => k, Err(_) => 0 };
        __verif_cover!("two writes of more than 300 bytes", n1 > 300 && n2 > 300);
        __verif_ob!("write#post len grows by exactly the accepted bytes (second write)", w.len == len0 + k1 as u64 + k2 as u64);
        std::mem::forget(w);
    }
    pub(crate) fn body(src: &mut Src) {
        // the descriptor is never written to: both writes stay in the 1 KiB buffer and the writer is forgotten, not dropped
        let file = unsafe { File::from_raw_fd(7) };
        let len0 = src.u64(); assume(len0 <= u64::MAX - 16);
        let mut w = LogWriter { file: BufWriter::with_capacity(1024, file), len: len0 };
        let buf = [src.u8(), src.u8(), src.u8(), src.u8(), src.u8(), src.u8(), src.u8(), src.u8()];
        let n1 = src.u8() as usize; assume(n1 <= 8);
        let n2 = src.u8() as usize; assume(n2 <= 8);
        let r1 = io::Write::write(&mut w, &buf[..n1]);
        let k1 = match r1 { Ok(k) => k, Err(_) => 0 };
        __verif_ob!("write#post a write that fits the buffer is accepted whole", k1 == n1);
        __verif_ob!("write#post len grows by exactly the accepted bytes (first write)", w.len == len0 + k1 as u64);
        let r2 = io::Write::write(&mut w, &buf[..n2]);
        let k2 = match r2 { Ok(k) => k, Err(_) => 0 };
        __verif_cover!("two non-empty writes", n1 > 0 && n2 > 0);
        __verif_ob!("write#post len grows by exactly the accepted bytes (second write)", w.len == len0 + k1 as u64 + k2 as u64);
        std::mem::forget(w);
    }
    #[cfg(kani)] #[kani::proof] #[kani::unwind(20)] fn c06_logwriter_accounting_400() { let mut s = Src::new(); body400(&mut s); }
    #[cfg(kani)] #[kani::proof] #[kani::unwind(20)] fn c06_logwriter_accounting() { let mut s = Src::new(); body(&mut s); }
}
