//@file src/append/rolling_file/mod.rs
//@harness c05_append_protocol_twin unwind=10 strength=bounded bound="one append on an open writer: pre- or post-process policy, policy rolling or not, encoder writing 0..=3 bytes; parking_lot slow paths and std::fs replaced by models" timeout=2400 replay=no
// Kani twin of the Verus unit c05_rolling_append, with call *counts*: the policy is consulted exactly once per append,
// with the counter of the writer at that moment; before the record is written for a pre-process policy, after it was
// written and flushed for a post-process policy; after a roll the record goes to the reopened writer.
#[cfg(kani)]
#[allow(dead_code, unused)]
mod __verif_c05_app {
    use super::*;
    use std::os::fd::FromRawFd;
    static mut TRACE: [u8; 8] = [0; 8];     // 1 = process, 2 = encode, 3 = open, 4 = flush of the buffered writer
    static mut TN: usize = 0;
    static mut SEEN_LEN: u64 = 0;
    static mut PRE: bool = false;
    static mut ROLLS: bool = false;
    static mut NBYTES: usize = 0;
    static mut MTX: *const Mutex<Option<LogWriter>> = std::ptr::null();
    static mut UNLOCKED_EVENTS: u8 = 0;
    fn ev(e: u8) { unsafe { if TN < 8 { TRACE[TN] = e; } TN += 1; if !(*MTX).is_locked() { UNLOCKED_EVENTS += 1; } } }
    fn m_write(o: &mut OpenOptions, b: bool) -> &mut OpenOptions { o }
    fn m_open<P: AsRef<Path>>(_o: &OpenOptions, _p: P) -> io::Result<File> { ev(3); unsafe { Ok(File::from_raw_fd(7)) } }
    fn m_metadata(_f: &File) -> io::Result<fs::Metadata> { Ok(unsafe { std::mem::zeroed() }) }
    fn m_len(_m: &fs::Metadata) -> u64 { 0 }
    fn m_unlock_slow(_m: &parking_lot::RawMutex, _f: bool) {}
    fn m_flush_buf<W: ?Sized + io::Write>(_b: &mut BufWriter<W>) -> io::Result<()> { ev(4); Ok(()) }
    fn m_lock_slow(_m: &parking_lot::RawMutex, _t: Option<std::time::Instant>) -> bool { true }

    struct Enc;
    impl std::fmt::Debug for Enc { fn fmt(&self, _f: &mut std::fmt::Formatter<'_>) -> std::fmt::Result { Ok(()) } }
    impl Encode for Enc {
        fn encode(&self, w: &mut dyn encode::Write, _r: &Record) -> anyhow::Result<()> {
            ev(2);
            let b = [b'x'; 3];
            let n = unsafe { NBYTES };
            let _ = w.write(&b[..n]);
            Ok(())
        }
    }
    struct Pol;
    impl std::fmt::Debug for Pol { fn fmt(&self, _f: &mut std::fmt::Formatter<'_>) -> std::fmt::Result { Ok(()) } }
    impl policy::Policy for Pol {
        fn process(&self, l: &mut LogFile) -> anyhow::Result<()> {
            ev(1);
            unsafe { SEEN_LEN = l.len_estimate(); }
            if unsafe { ROLLS } { std::mem::forget(l.writer.take()); }
            Ok(())
        }
        fn is_pre_process(&self) -> bool { unsafe { PRE } }
    }

    #[kani::proof]
    #[kani::unwind(10)]
    #[kani::stub(std::fs::OpenOptions::open, m_open)]
    #[kani::stub(std::fs::File::metadata, m_metadata)]
    #[kani::stub(std::fs::Metadata::len, m_len)]
    #[kani::stub(parking_lot::RawMutex::unlock_slow, m_unlock_slow)]
    #[kani::stub(parking_lot::RawMutex::lock_slow, m_lock_slow)]
    #[kani::stub(std::io::BufWriter::flush_buf, m_flush_buf)]
    fn c05_append_protocol_twin() {
        let pre: bool = kani::any(); let rolls: bool = kani::any();
        let nbytes: usize = kani::any(); kani::assume(nbytes <= 3);
        let len0: u64 = kani::any(); kani::assume(len0 <= 1000);
        unsafe { PRE = pre; ROLLS = rolls; NBYTES = nbytes; TN = 0; TRACE = [0; 8]; }
        let w0 = LogWriter { file: BufWriter::with_capacity(1024, unsafe { File::from_raw_fd(7) }), len: len0 };
        let app = RollingFileAppender { writer: Mutex::new(Some(w0)), path: PathBuf::from("f"), append: true, encoder: Box::new(Enc), policy: Box::new(Pol) };
        unsafe { MTX = &app.writer; UNLOCKED_EVENTS = 0; }
        let rec = Record::builder().build();
        let r = Append::append(&app, &rec);
        let (t, n) = unsafe { (TRACE, TN) };
        assert!(r.is_ok(), "append#post Ok when every step succeeds");
        assert!(unsafe { UNLOCKED_EVENTS } == 0, "append#post the writer lock is held across policy, reopen, encode and flush");
        assert!(!app.writer.is_locked(), "append#post the writer lock is released when the call returns");
        kani::cover!(pre && rolls, "pre-process policy that rolls");
        // positions of the events (extra flushes are tolerated; the policy and the encoder run exactly once)
        let mut n_proc = 0; let mut n_enc = 0; let mut p_proc = 99; let mut p_enc = 99; let mut p_open = 99; let mut p_last_flush = 99;
        let mut i = 0;
        while i < 8 { if i < n { match t[i] { 1 => { n_proc += 1; p_proc = i; } 2 => { n_enc += 1; p_enc = i; } 3 => { p_open = i; } 4 => { p_last_flush = i; } _ => {} } } i += 1; }
        assert!(n <= 8 && n_proc == 1 && n_enc == 1, "append#post the policy is consulted exactly once and the record is encoded exactly once");
        assert!(p_last_flush != 99 && p_last_flush > p_enc, "append#post the record is flushed after it was encoded");
        if pre {
            assert!(p_proc < p_enc, "append#post pre-process: the policy is consulted before the record is written");
            if rolls { assert!(p_open != 99 && p_proc < p_open && p_open < p_enc, "append#post pre-process: after a roll the file is reopened before the record is written"); }
            assert!(unsafe { SEEN_LEN } == len0, "append#post pre-process: the policy sees the size before the record");
        } else {
            assert!(p_enc < p_proc && p_last_flush < p_proc, "append#post post-process: the policy is consulted after the record was written and flushed");
            assert!(unsafe { SEEN_LEN } == len0 + nbytes as u64, "append#post post-process: the policy sees the size including the record just written");
        }
        std::mem::forget(r); std::mem::forget(app);
    }
}
