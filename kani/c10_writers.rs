//@file src/encode/pattern/mod.rs
//@harness c10_char_boundary_twin strength=complete bound="all 256 byte values (full domain), loop-free" timeout=300 body=body_boundary
//@harness c10_char_starts unwind=9 strength=bounded bound="buffers of <= 6 arbitrary bytes" timeout=600 body=body_starts
//@harness c10_maxwidth_write unwind=9 strength=bounded bound="one write of <= 6 arbitrary bytes, any remaining budget, inner writer accepting any prefix or failing" timeout=900 body=body_maxw
//@harness c10_char_starts_24 unwind=27 strength=bounded bound="buffers of <= 24 arbitrary bytes" timeout=1800 body=body_starts24 tier=thorough
//@harness c10_maxwidth_write_12 unwind=15 strength=bounded bound="one write of <= 12 arbitrary bytes, any remaining budget, inner writer accepting any prefix or failing" timeout=3000 body=body_maxw12 tier=thorough
//@harness c10_leftalign_write unwind=9 strength=bounded bound="one write of <= 5 arbitrary bytes, to_fill <= 7, inner writer accepting any prefix" timeout=600 body=body_left
//@harness c10_rightalign_write unwind=9 strength=bounded bound="two writes of <= 3 bytes with a style change in between, to_fill <= 7" timeout=2400 body=body_right
//@harness c18_width_writers_forward_style unwind=4 strength=complete bound="any remaining budget / padding owed (full usize domain); loop-free" timeout=600 body=body_style
//@harness c10_left_over_max_two_writes unwind=9 strength=bounded bound="valid UTF-8 text of <= 2 scalar values drawn from {a, e-acute, euro, U+1F600} split into two writes at a character boundary; M <= 3, m <= 4" timeout=1500 body=body_left_max
// Width machinery below `finish`: MaxWidthWriter cuts at a lead byte and then acts as a sink; the align writers count
// lead bytes (scalar values), not bytes. Oracles are written from the statement (first M characters, m - chars padding).
#[cfg(any(kani, verif_replay))]
#[allow(dead_code, unused)]
mod __verif_c10 {
    use super::*;
    use crate::__verif_rt::*;
    use crate::{__verif_ob, __verif_cover};

    fn lead(b: u8) -> bool { (b & 0xC0) != 0x80 }
    fn leads(b: &[u8]) -> usize { let mut n = 0; let mut i = 0; while i < b.len() { if lead(b[i]) { n += 1; } i += 1; } n }

    // inner writer: records what it is given; accepts `accept` bytes of each call (or fails)
    pub(crate) struct VW { pub buf: [u8; 16], pub len: usize, pub calls: usize, pub accept: usize, pub fail: bool, pub styles: usize }
    impl VW { pub fn new(accept: usize, fail: bool) -> VW { VW { buf: [0; 16], len: 0, calls: 0, accept, fail, styles: 0 } } }
    impl io::Write for VW {
        fn write(&mut self, b: &[u8]) -> io::Result<usize> {
            self.calls += 1;
            if self.fail { return Err(io::Error::from(io::ErrorKind::Other)); }
            let k = if self.accept < b.len() { self.accept } else { b.len() };
            let mut i = 0; while i < k { if self.len < 16 { self.buf[self.len] = b[i]; } self.len += 1; i += 1; }
            Ok(k)
        }
        fn flush(&mut self) -> io::Result<()> { Ok(()) }
    }
    impl encode::Write for VW { fn set_style(&mut self, _s: &Style) -> io::Result<()> { self.styles += 1; Ok(()) } }

    pub(crate) fn body_boundary(src: &mut Src) {
        let b = src.u8();
        __verif_ob!("is_char_boundary#post true iff not a continuation byte", is_char_boundary(b) == ((b & 0xC0) != 0x80));
    }

    fn starts_n<const N: usize>(src: &mut Src) {
        let n = src.u8() as usize; assume(n <= N);
        let mut buf = [0u8; N]; let mut i = 0; while i < N { buf[i] = src.u8(); i += 1; }
        __verif_cover!("a 3-byte character", n >= 3 && buf[0] == 0xE2 && buf[1] == 0x82 && buf[2] == 0xAC);
        __verif_ob!("char_starts#post counts the non-continuation bytes", char_starts(&buf[..n]) == leads(&buf[..n]));
    }
    pub(crate) fn body_starts(src: &mut Src) { starts_n::<6>(src) }
    pub(crate) fn body_starts24(src: &mut Src) { starts_n::<24>(src) }

    pub(crate) fn body_maxw(src: &mut Src) { maxw_n::<6>(src) }
    pub(crate) fn body_maxw12(src: &mut Src) { maxw_n::<12>(src) }
    fn maxw_n<const N: usize>(src: &mut Src) {
        let n = src.u8() as usize; assume(n <= N);
        let mut buf = [0u8; N]; let mut i0 = 0; while i0 < N { buf[i0] = src.u8(); i0 += 1; }
        let rem = src.usize();
        let accept = src.u8() as usize; let fail = src.bool();
        let mut inner = VW::new(accept, fail);
        let (ret, left) = {
            let mut w = MaxWidthWriter { remaining: rem, w: &mut inner };
            let r = io::Write::write(&mut w, &buf[..n]);
            (r, w.remaining)
        };
        // oracle: `end` = index of the (rem+1)-th lead byte, or n (the text cut to its first `rem` characters)
        let mut seen = 0usize; let mut end = n; let mut i = 0;
        while i < n { if lead(buf[i]) { if seen == rem { end = i; break; } seen += 1; } i += 1; }
        __verif_cover!("truncation in the middle of multi-byte text", end < n && end > 0 && !lead(buf[end - 1]));
        __verif_cover!("partial acceptance by the inner writer", end > 1 && accept < end && !fail);
        if end == 0 {
            __verif_ob!("write#post past the budget the writer is a sink: reports the whole buffer", matches!(ret, Ok(k) if k == n));
            __verif_ob!("write#post past the budget nothing reaches the inner writer", inner.calls == 0);
            __verif_ob!("write#post past the budget the budget is unchanged", left == rem);
        } else if fail {
            __verif_ob!("write#post inner error is propagated", ret.is_err());
            __verif_ob!("write#post budget unchanged on error", left == rem);
        } else {
            let k = if accept < end { accept } else { end };
            __verif_ob!("write#post returns what the inner writer accepted", matches!(ret, Ok(x) if x == k));
            __verif_ob!("write#post exactly one inner write", inner.calls == 1);
            __verif_ob!("write#post the inner writer is offered exactly the first `remaining` characters", inner.len == k);
            let mut j = 0; while j < N { if j < k { __verif_ob!("write#post bytes are forwarded unchanged", inner.buf[j] == buf[j]); } j += 1; }
            __verif_ob!("write#post budget decreases by the characters accepted", left == rem - leads(&buf[..k]));
            __verif_ob!("write#post never cuts inside a character", end == n || lead(buf[end]));
        }
        std::mem::forget(ret);
    }

    pub(crate) fn body_left(src: &mut Src) {
        let n = src.u8() as usize; assume(n <= 5);
        let buf = [src.u8(), src.u8(), src.u8(), src.u8(), src.u8()];
        let m = src.u8() as usize; assume(m <= 7);
        let accept = src.u8() as usize;
        let mut w = LeftAlignWriter { to_fill: m, fill: '*', w: VW::new(accept, false) };
        let r = io::Write::write(&mut w, &buf[..n]);
        let k = if accept < n { accept } else { n };
        let c = leads(&buf[..k]);
        __verif_cover!("text longer than the minimum width", c > m);
        __verif_ob!("write#post forwards and reports what the inner writer accepted", matches!(r, Ok(x) if x == k) && w.w.len == k);
        __verif_ob!("write#post padding still owed = m - characters written (saturating)", w.to_fill == if c >= m { 0 } else { m - c });
        std::mem::forget(r);
    }

    pub(crate) fn body_right(src: &mut Src) {
        let n1 = src.u8() as usize; assume(n1 <= 3);
        let n2 = src.u8() as usize; assume(n2 <= 3);
        let b1 = [src.u8(), src.u8(), src.u8()];
        let b2 = [src.u8(), src.u8(), src.u8()];
        let m = src.u8() as usize; assume(m <= 7);
        let styled = src.bool();
        let mut w = RightAlignWriter { to_fill: m, fill: ' ', w: VW::new(16, false), buf: vec![] };
        let r1 = io::Write::write(&mut w, &b1[..n1]);
        if styled { let _ = encode::Write::set_style(&mut w, &Style::new()); }
        let r2 = io::Write::write(&mut w, &b2[..n2]);
        let c = leads(&b1[..n1]) + leads(&b2[..n2]);
        __verif_cover!("style marker between two data pieces", styled && n1 > 0 && n2 > 0);
        __verif_ob!("write#post the whole piece is accepted", matches!(r1, Ok(x) if x == n1) && matches!(r2, Ok(x) if x == n2));
        __verif_ob!("write#post nothing reaches the inner writer before finish", w.w.calls == 0 && w.w.styles == 0);
        __verif_ob!("write#post padding still owed = m - characters written (saturating)", w.to_fill == if c >= m { 0 } else { m - c });
        // buffered output = the pieces in order, with the style marker in place
        let mut flat = [0u8; 8]; let mut fl = 0usize; let mut nstyles = 0usize; let mut style_pos = 99usize;
        let mut i = 0;
        while i < w.buf.len() {
            match &w.buf[i] {
                BufferedOutput::Data(d) => { let mut j = 0; while j < d.len() { if fl < 8 { flat[fl] = d[j]; } fl += 1; j += 1; } }
                BufferedOutput::Style(_) => { nstyles += 1; style_pos = fl; }
            }
            i += 1;
        }
        __verif_ob!("write#post buffered bytes = concatenation of the pieces", fl == n1 + n2);
        let mut j = 0; while j < 6 { if j < n1 { __verif_ob!("write#post first piece kept in order", flat[j] == b1[j]); } else if j < n1 + n2 { __verif_ob!("write#post second piece kept in order", flat[j] == b2[j - n1]); } j += 1; }
        __verif_ob!("set_style#post style marker recorded once, between the pieces", nstyles == if styled { 1 } else { 0 } && (!styled || style_pos == n1));
        std::mem::forget(r1); std::mem::forget(r2); std::mem::forget(w);
    }

    // style changes (highlight set / reset) pass through the width layers regardless of the remaining width budget
    pub(crate) fn body_style(src: &mut Src) {
        let rem = src.usize(); let fill = src.usize();
        let mut inner = VW::new(16, false);
        {
            let mut w = MaxWidthWriter { remaining: rem, w: &mut inner };
            let r = encode::Write::set_style(&mut w, &Style::new());
            __verif_ob!("MaxWidthWriter::set_style#post Ok", r.is_ok());
            __verif_ob!("MaxWidthWriter::set_style#post the width budget is untouched", w.remaining == rem);
            std::mem::forget(r);
        }
        __verif_cover!("budget already used up", rem == 0);
        __verif_ob!("MaxWidthWriter::set_style#post the style reaches the inner writer even when the width budget is used up", inner.styles == 1 && inner.calls == 0);
        let mut l = LeftAlignWriter { to_fill: fill, fill: ' ', w: VW::new(16, false) };
        let r2 = encode::Write::set_style(&mut l, &Style::new());
        __verif_ob!("LeftAlignWriter::set_style#post forwarded, padding owed unchanged", r2.is_ok() && l.w.styles == 1 && l.to_fill == fill);
        std::mem::forget(r2);
    }

    fn put(ch: u8, out: &mut [u8; 8], len: &mut usize) {
        let s: &[u8] = match ch { 0 => b"a", 1 => "é".as_bytes(), 2 => "€".as_bytes(), _ => "😀".as_bytes() };
        let mut i = 0; while i < s.len() { out[*len] = s[i]; *len += 1; i += 1; }
    }
    pub(crate) fn body_left_max(src: &mut Src) {
        // text = up to two scalar values; written as two pieces split at the character boundary
        let nch = src.u8() as usize; assume(nch <= 2);
        let c0 = src.u8(); let c1 = src.u8(); assume(c0 <= 3 && c1 <= 3);
        let mut t = [0u8; 8]; let mut l0 = 0usize;
        if nch >= 1 { put(c0, &mut t, &mut l0); }
        let mut l1 = l0;
        if nch >= 2 { put(c1, &mut t, &mut l1); }
        let mx = src.u8() as usize; assume(mx <= 3);
        let mn = src.u8() as usize; assume(mn <= 4 && mn <= mx);
        let mut inner = VW::new(16, false);
        let to_fill;
        {
            let mut w = LeftAlignWriter { to_fill: mn, fill: '*', w: MaxWidthWriter { remaining: mx, w: &mut inner } };
            let r1 = io::Write::write(&mut w, &t[..l0]);
            let r2 = io::Write::write(&mut w, &t[l0..l1]);
            __verif_ob!("write#post both pieces are consumed (no short write, no error)", matches!(r1, Ok(x) if x == l0) && matches!(r2, Ok(x) if x == l1 - l0));
            to_fill = w.to_fill;
            std::mem::forget(r1); std::mem::forget(r2);
        }
        // statement: the text cut to its first M characters reaches the output ...
        let keep = if nch < mx { nch } else { mx };
        let want_len = if keep == 0 { 0 } else if keep == 1 { l0 } else { l1 };
        __verif_cover!("second character cut away by the maximum width", nch == 2 && mx == 1 && c1 >= 1);
        __verif_ob!("left-over-max#post exactly the first min(chars, M) characters reach the output", inner.len == want_len);
        let mut j = 0; while j < 8 { if j < want_len { __verif_ob!("left-over-max#post bytes unchanged and in order", inner.buf[j] == t[j]); } j += 1; }
        // ... and the padding owed afterwards is m - (characters emitted), never counting bytes
        __verif_ob!("left-over-max#post padding owed = m - characters emitted", to_fill == if keep >= mn { 0 } else { mn - keep });
    }

    #[cfg(kani)] #[kani::proof] fn c10_char_boundary_twin() { let mut s = Src::new(); body_boundary(&mut s); }
    #[cfg(kani)] #[kani::proof] #[kani::unwind(9)] fn c10_char_starts() { let mut s = Src::new(); body_starts(&mut s); }
    #[cfg(kani)] #[kani::proof] #[kani::unwind(9)] fn c10_maxwidth_write() { let mut s = Src::new(); body_maxw(&mut s); }
    #[cfg(kani)] #[kani::proof] #[kani::unwind(27)] fn c10_char_starts_24() { let mut s = Src::new(); body_starts24(&mut s); }
    #[cfg(kani)] #[kani::proof] #[kani::unwind(15)] fn c10_maxwidth_write_12() { let mut s = Src::new(); body_maxw12(&mut s); }
    #[cfg(kani)] #[kani::proof] #[kani::unwind(9)] fn c10_leftalign_write() { let mut s = Src::new(); body_left(&mut s); }
    #[cfg(kani)] #[kani::proof] #[kani::unwind(9)] fn c10_rightalign_write() { let mut s = Src::new(); body_right(&mut s); }
    #[cfg(kani)] #[kani::proof] #[kani::unwind(4)] fn c18_width_writers_forward_style() { let mut s = Src::new(); body_style(&mut s); }
    #[cfg(kani)] #[kani::proof] #[kani::unwind(9)] fn c10_left_over_max_two_writes() { let mut s = Src::new(); body_left_max(&mut s); }
}
